//! Seeded generation helpers. One run seed → independent sub-streams.

#[derive(Clone)]
pub struct Rng(u64);

pub fn mix2(a: u64, b: u64) -> u64 {
    let mut z = a ^ b.wrapping_mul(0x9E37_79B9_7F4A_7C15).rotate_left(23);
    z = (z ^ (z >> 30)).wrapping_mul(0xBF58_476D_1CE4_E5B9);
    z = (z ^ (z >> 27)).wrapping_mul(0x94D0_49BB_1331_11EB);
    z ^ (z >> 31)
}

pub fn str_hash(s: &str) -> u64 {
    let mut h = 0xcbf2_9ce4_8422_2325u64;
    for b in s.bytes() {
        h = (h ^ b as u64).wrapping_mul(0x1000_0000_01b3);
    }
    h
}

/// The seed of run `index` of campaign `prop`/`tier` under `VERIF_SEED`.
pub fn run_seed(verif_seed: u64, prop: &str, tier: &str, index: u64) -> u64 {
    mix2(mix2(mix2(verif_seed, str_hash(prop)), str_hash(tier)), index)
}

impl Rng {
    pub fn new(seed: u64) -> Rng {
        Rng(mix2(seed, 0x5151_5151))
    }
    /// independent sub-stream
    pub fn sub(&self, tag: &str) -> Rng {
        Rng(mix2(self.0, str_hash(tag)))
    }
    pub fn next(&mut self) -> u64 {
        self.0 = self.0.wrapping_add(0x9E37_79B9_7F4A_7C15);
        let mut z = self.0;
        z = (z ^ (z >> 30)).wrapping_mul(0xBF58_476D_1CE4_E5B9);
        z = (z ^ (z >> 27)).wrapping_mul(0x94D0_49BB_1331_11EB);
        z ^ (z >> 31)
    }
    pub fn below(&mut self, n: u64) -> u64 {
        if n <= 1 {
            0
        } else {
            self.next() % n
        }
    }
    pub fn range(&mut self, lo: u64, hi_incl: u64) -> u64 {
        lo + self.below(hi_incl - lo + 1)
    }
    pub fn usize(&mut self, lo: usize, hi_incl: usize) -> usize {
        self.range(lo as u64, hi_incl as u64) as usize
    }
    pub fn chance(&mut self, num: u64, den: u64) -> bool {
        self.below(den) < num
    }
    pub fn pick<'a, T>(&mut self, v: &'a [T]) -> &'a T {
        &v[self.below(v.len() as u64) as usize]
    }
    pub fn shuffle<T>(&mut self, v: &mut [T]) {
        for i in (1..v.len()).rev() {
            let j = self.below(i as u64 + 1) as usize;
            v.swap(i, j);
        }
    }
}
