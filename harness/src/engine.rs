//! Executes one Scenario against the real tiny-http inside one simrt world and
//! records what the application and the clients observed.

use crate::scenario::*;
use serde::{Deserialize, Serialize};
use simrt::net::{connect_client, ClientEnd, Gone, Kind, Listener};
use std::collections::{BTreeMap, BTreeSet};
use std::io::{Read, Write};
use std::sync::{Arc, Mutex};
use std::time::Duration;
use tiny_http::{Header, Request, Response, ResponseBox, Server, StatusCode};

#[derive(Clone, Debug, Serialize, Deserialize, PartialEq)]
pub struct HeadObs {
    pub method: String,
    pub url: String,
    pub version: (u8, u8),
    pub headers: Vec<(String, String)>,
    pub remote_addr: Option<String>,
    pub body_length: Option<usize>,
}

#[derive(Clone, Debug, Serialize, Deserialize, PartialEq)]
pub enum RecvRes {
    Got(String),
    Empty,
    Err(String),
}

#[derive(Clone, Debug, Serialize, Deserialize)]
pub enum Ev {
    RecvCall {
        rx: usize,
        kind: String,
        timeout: u64,
        t0: u64,
        t1: u64,
        seq0: u64,
        seq1: u64,
        res: RecvRes,
    },
    Delivered {
        rx: usize,
        id: String,
        seq: u64,
        t: u64,
        head: HeadObs,
    },
    AsReader {
        id: String,
        seq: u64,
    },
    BodyRead {
        id: String,
        data: B,
        eof: bool,
        err: Option<String>,
        reads: usize,
        seq: u64,
    },
    FinishStart {
        id: String,
        kind: String,
        seq: u64,
        t: u64,
        #[serde(default)]
        wall: u64,
    },
    FinishEnd {
        id: String,
        kind: String,
        seq: u64,
        t: u64,
        ok: bool,
        err: Option<String>,
    },
    StreamRead {
        id: String,
        data: B,
        eof: bool,
    },
    Unblock {
        seq: u64,
        t: u64,
    },
    ServerDrop {
        seq0: u64,
        seq1: u64,
        t0: u64,
        t1: u64,
    },
    Connect {
        label: String,
        ok: bool,
        err: Option<String>,
        t: u64,
        seq: u64,
    },
    Client {
        conn: usize,
        what: String,
        seq: u64,
        t: u64,
    },
}

#[derive(Clone, Debug, Serialize, Deserialize, Default)]
pub struct ConnSnap {
    pub opened: bool,
    pub received_len: usize,
    pub server_fin: bool,
    pub unread_by_server: usize,
    #[serde(default)]
    pub dropped_unread: usize,
}

#[derive(Clone, Debug, Serialize, Deserialize, Default)]
pub struct Snapshot {
    pub t: u64,
    pub seq: u64,
    /// (name or "lib", state, last op)
    pub threads: Vec<(String, String, String)>,
    pub conns: Vec<ConnSnap>,
}

#[derive(Clone, Debug, Serialize, Deserialize, Default)]
pub struct ConnObs {
    pub opened: bool,
    pub peer: Option<String>,
    pub connect_err: Option<String>,
    pub received: B,
    pub server_wrote_len: usize,
    /// (offset, len, seq, t) of every server write
    pub marks: Vec<(usize, usize, u64, u64)>,
    pub server_fin: Option<(u64, u64)>,
    pub sent: usize,
    pub script_done: bool,
}

#[derive(Clone, Debug, Serialize, Deserialize, Default)]
pub struct Obs {
    pub events: Vec<Ev>,
    pub conns: Vec<ConnObs>,
    pub snaps: BTreeMap<String, Snapshot>,
    pub server_dropped: bool,
    pub receivers_finished: Vec<bool>,
}

impl Obs {
    pub fn delivered_ids(&self) -> Vec<String> {
        self.events
            .iter()
            .filter_map(|e| match e {
                Ev::Delivered { id, .. } => Some(id.clone()),
                _ => None,
            })
            .collect()
    }
}

pub struct RunOut {
    pub report: simrt::Report,
    pub obs: Obs,
    /// largest single allocation request during the run
    pub max_alloc: usize,
    /// peak of live heap bytes above the level at the start of the run
    pub peak_live: usize,
}

struct Shared {
    obs: Mutex<Obs>,
    programs: BTreeMap<String, Program>,
    default_program: Program,
    begun: simrt::sync::Mutex<BTreeSet<String>>,
    begun_cv: simrt::sync::Condvar,
    clients: Mutex<Vec<Option<Arc<ClientEnd>>>>,
    anon: Mutex<usize>,
}

impl Shared {
    fn ev(&self, e: Ev) {
        self.obs.lock().unwrap().events.push(e);
    }
}

/// Reader that hands out its data in the given piece sizes.
pub struct PieceReader {
    data: Vec<u8>,
    pos: usize,
    pieces: Vec<usize>,
    k: usize,
    pub fail_at_end: bool,
}
impl PieceReader {
    pub fn new(data: Vec<u8>, pieces: Vec<usize>) -> PieceReader {
        PieceReader {
            data,
            pos: 0,
            pieces,
            k: 0,
            fail_at_end: false,
        }
    }
}
impl Read for PieceReader {
    fn read(&mut self, buf: &mut [u8]) -> std::io::Result<usize> {
        let rest = self.data.len() - self.pos;
        if rest == 0 && self.fail_at_end && !buf.is_empty() {
            return Err(std::io::Error::new(std::io::ErrorKind::Other, "simulated failure of the body source after its last byte"));
        }
        if rest == 0 || buf.is_empty() {
            return Ok(0);
        }
        let mut n = rest.min(buf.len());
        if !self.pieces.is_empty() {
            let p = self.pieces[self.k % self.pieces.len()].max(1);
            self.k += 1;
            n = n.min(p);
        }
        buf[..n].copy_from_slice(&self.data[self.pos..self.pos + n]);
        self.pos += n;
        Ok(n)
    }
}

fn mk_header(n: &str, v: &str) -> Option<Header> {
    Header::from_bytes(n.as_bytes(), v.as_bytes()).ok()
}

pub fn build_response(spec: &RespSpec) -> ResponseBox {
    let mut r: ResponseBox = match spec.ctor {
        Ctor::FromString => {
            Response::from_string(String::from_utf8_lossy(&spec.body.0).into_owned())
                .with_status_code(StatusCode(spec.status))
                .boxed()
        }
        Ctor::FromData => Response::from_data(spec.body.0.clone())
            .with_status_code(StatusCode(spec.status))
            .boxed(),
        Ctor::Empty => Response::empty(StatusCode(spec.status)).boxed(),
        Ctor::FromFile => {
            // a real file (the file system is not part of what is simulated): unlinked at once
            use std::sync::atomic::{AtomicU64, Ordering};
            static N: AtomicU64 = AtomicU64::new(0);
            let dir = std::env::temp_dir();
            let path = dir.join(format!("dst-body-{}-{}", std::process::id(), N.fetch_add(1, Ordering::Relaxed)));
            std::fs::write(&path, &spec.body.0).expect("temp file");
            let f = std::fs::File::open(&path).expect("temp file open");
            let _ = std::fs::remove_file(&path);
            Response::from_file(f)
                .with_status_code(StatusCode(spec.status))
                .boxed()
        }
        Ctor::New => {
            let hs: Vec<Header> = spec
                .headers
                .iter()
                .filter(|h| h.2 == 0)
                .filter_map(|h| mk_header(&h.0, &h.1))
                .collect();
            let mut rd = PieceReader::new(spec.body.0.clone(), spec.pieces.clone());
            rd.fail_at_end = spec.fail_at_end;
            Response::new(StatusCode(spec.status), hs, rd, spec.declared, None).boxed()
        }
    };
    let apply_data = |r: ResponseBox| -> ResponseBox {
        match &spec.replace_data {
            Some((data, len)) => {
                let rd: Box<dyn Read + Send> = Box::new(PieceReader::new(data.0.clone(), spec.pieces.clone()));
                r.with_data(rd, *len)
            }
            None => r,
        }
    };
    let mut applied = false;
    let mut later = 0usize;
    for (n, v, via) in &spec.headers {
        if !(*via == 0 && spec.ctor == Ctor::New) {
            if !applied && spec.replace_at == Some(later) {
                r = apply_data(r);
                applied = true;
            }
            later += 1;
        }
        match via {
            0 => {
                if spec.ctor != Ctor::New {
                    if let Some(h) = mk_header(n, v) {
                        r.add_header(h)
                    }
                }
            }
            1 => {
                if let Some(h) = mk_header(n, v) {
                    r.add_header(h)
                }
            }
            _ => {
                if let Some(h) = mk_header(n, v) {
                    r = r.with_header(h)
                }
            }
        }
    }
    if let Some(t) = spec.threshold {
        r = r.with_chunked_threshold(t);
    }
    if !applied {
        r = apply_data(r);
    }
    r
}

fn head_of(rq: &Request) -> HeadObs {
    HeadObs {
        method: rq.method().as_str().to_string(),
        url: rq.url().to_string(),
        version: (rq.http_version().0, rq.http_version().1),
        headers: rq
            .headers()
            .iter()
            .map(|h| (h.field.as_str().as_str().to_string(), h.value.as_str().to_string()))
            .collect(),
        remote_addr: rq.remote_addr().map(|a| a.to_string()),
        body_length: rq.body_length(),
    }
}

fn req_id(rq: &Request, sh: &Shared) -> String {
    for h in rq.headers() {
        if h.field.equiv("X-Id") {
            return h.value.as_str().to_string();
        }
    }
    let mut a = sh.anon.lock().unwrap();
    *a += 1;
    format!("?{}", *a)
}

fn run_program(mut rq: Request, sh: &Arc<Shared>, rx: usize) {
    let id = req_id(&rq, sh);
    sh.ev(Ev::Delivered {
        rx,
        id: id.clone(),
        seq: simrt::seq(),
        t: simrt::now_ns(),
        head: head_of(&rq),
    });
    let prog = sh
        .programs
        .get(&id)
        .cloned()
        .unwrap_or_else(|| sh.default_program.clone());
    if prog.delay > 0 {
        simrt::thread::sleep(Duration::from_nanos(prog.delay));
    }
    if !prog.after.is_empty() {
        let mut g = sh.begun.lock().unwrap();
        while !prog.after.iter().all(|a| g.contains(a)) {
            g = sh.begun_cv.wait(g).unwrap();
        }
    }
    match &prog.body {
        BodyPlan::None => {}
        BodyPlan::Touch(n) => {
            for _ in 0..*n {
                sh.ev(Ev::AsReader {
                    id: id.clone(),
                    seq: simrt::seq(),
                });
                let _ = rq.as_reader();
            }
        }
        BodyPlan::Sizes(v) => {
            let mut data = Vec::new();
            let mut eof = false;
            let mut err = None;
            let mut reads = 0;
            sh.ev(Ev::AsReader {
                id: id.clone(),
                seq: simrt::seq(),
            });
            let rd = rq.as_reader();
            for &s in v {
                let mut buf = vec![0u8; s];
                reads += 1;
                match rd.read(&mut buf) {
                    Ok(0) if s == 0 => {}
                    Ok(0) => {
                        eof = true;
                        break;
                    }
                    Ok(n) => data.extend_from_slice(&buf[..n]),
                    Err(e) => {
                        err = Some(format!("{:?}", e.kind()));
                        break;
                    }
                }
            }
            sh.ev(Ev::BodyRead {
                id: id.clone(),
                data: B(data),
                eof,
                err,
                reads,
                seq: simrt::seq(),
            });
        }
        BodyPlan::Exactly(k) => {
            let mut data = Vec::new();
            let mut eof = false;
            let mut err = None;
            let mut reads = 0;
            sh.ev(Ev::AsReader {
                id: id.clone(),
                seq: simrt::seq(),
            });
            let rd = rq.as_reader();
            while data.len() < *k {
                let mut b = vec![0u8; (*k - data.len()).min(4096)];
                reads += 1;
                match rd.read(&mut b) {
                    Ok(0) => {
                        eof = true;
                        break;
                    }
                    Ok(n) => data.extend_from_slice(&b[..n]),
                    Err(e) => {
                        err = Some(format!("{:?}", e.kind()));
                        break;
                    }
                }
            }
            sh.ev(Ev::BodyRead {
                id: id.clone(),
                data: B(data),
                eof,
                err,
                reads,
                seq: simrt::seq(),
            });
        }
        BodyPlan::ToEof { .. } | BodyPlan::Mixed { .. } => {
            let (sizes, buf) = match &prog.body {
                BodyPlan::ToEof { buf } => (vec![], *buf),
                BodyPlan::Mixed { sizes, buf } => (sizes.clone(), *buf),
                _ => unreachable!(),
            };
            let mut data = Vec::new();
            let mut eof = false;
            let mut err = None;
            let mut reads = 0;
            sh.ev(Ev::AsReader {
                id: id.clone(),
                seq: simrt::seq(),
            });
            let rd = rq.as_reader();
            loop {
                let sz = sizes.get(reads).copied().unwrap_or(buf).max(1);
                let mut b = vec![0u8; sz];
                reads += 1;
                match rd.read(&mut b) {
                    Ok(0) => {
                        eof = true;
                        break;
                    }
                    Ok(n) => {
                        if data.len() < (8 << 20) {
                            data.extend_from_slice(&b[..n])
                        }
                    }
                    Err(e) => {
                        err = Some(format!("{:?}", e.kind()));
                        break;
                    }
                }
                if reads > 2_000_000 {
                    err = Some("harness: too many reads".into());
                    break;
                }
            }
            // a further read after end-of-stream must keep returning Ok(0)
            let mut after_eof = None;
            if eof {
                let mut b = [0u8; 16];
                after_eof = Some(match rd.read(&mut b) {
                    Ok(n) => n,
                    Err(_) => usize::MAX,
                });
            }
            sh.ev(Ev::BodyRead {
                id: id.clone(),
                data: B(data),
                eof: eof && after_eof.unwrap_or(0) == 0,
                err,
                reads,
                seq: simrt::seq(),
            });
        }
    }
    if prog.delay2 > 0 {
        simrt::thread::sleep(Duration::from_nanos(prog.delay2));
    }
    {
        let mut g = sh.begun.lock().unwrap();
        g.insert(id.clone());
        sh.begun_cv.notify_all();
    }
    let kind = match &prog.finish {
        Finish::Respond(_) => "respond",
        Finish::Writer { .. } => "writer",
        Finish::Upgrade { .. } => "upgrade",
        Finish::Drop => "drop",
        Finish::Panic => "panic",
    }
    .to_string();
    sh.ev(Ev::FinishStart {
        id: id.clone(),
        kind: kind.clone(),
        seq: simrt::seq(),
        t: simrt::now_ns(),
        wall: simrt::time::wall_secs(),
    });
    let mut ok = true;
    let mut err = None;
    match &prog.finish {
        Finish::Respond(spec) => {
            let resp = build_response(spec);
            if let Err(e) = rq.respond(resp) {
                ok = false;
                err = Some(format!("{:?}", e.kind()));
            }
        }
        Finish::Writer { parts, flush } => {
            let mut w = rq.into_writer();
            for p in parts {
                if p.0.is_empty() && !*flush {
                    // an empty part of an unflushed writer stands for a zero-length write call
                    // (write_all would not call write at all)
                    let _ = w.write(&[]);
                    continue;
                }
                if let Err(e) = w.write_all(&p.0) {
                    ok = false;
                    err = Some(format!("{:?}", e.kind()));
                    break;
                }
                if *flush {
                    if let Err(e) = w.flush() {
                        ok = false;
                        err = Some(format!("{:?}", e.kind()));
                        break;
                    }
                }
            }
            drop(w);
        }
        Finish::Upgrade { proto, resp, ops } => {
            let resp = build_response(resp);
            let mut s = rq.upgrade(proto, resp);
            for op in ops {
                match op {
                    StreamOp::Write(b) => {
                        if let Err(e) = s.write_all(&b.0) {
                            ok = false;
                            err = Some(format!("{:?}", e.kind()));
                        }
                    }
                    StreamOp::Flush => {
                        if let Err(e) = s.flush() {
                            ok = false;
                            err = Some(format!("{:?}", e.kind()));
                        }
                    }
                    StreamOp::Read(n) => {
                        let mut buf = vec![0u8; (*n).max(1)];
                        match s.read(&mut buf) {
                            Ok(k) => sh.ev(Ev::StreamRead {
                                id: id.clone(),
                                data: B(buf[..k].to_vec()),
                                eof: k == 0,
                            }),
                            Err(e) => {
                                ok = false;
                                err = Some(format!("{:?}", e.kind()));
                            }
                        }
                    }
                    StreamOp::ReadToEof => {
                        let mut data = Vec::new();
                        let mut buf = [0u8; 512];
                        let mut eof = false;
                        loop {
                            match s.read(&mut buf) {
                                Ok(0) => {
                                    eof = true;
                                    break;
                                }
                                Ok(k) => data.extend_from_slice(&buf[..k]),
                                Err(e) => {
                                    err = Some(format!("{:?}", e.kind()));
                                    break;
                                }
                            }
                        }
                        sh.ev(Ev::StreamRead {
                            id: id.clone(),
                            data: B(data),
                            eof,
                        });
                    }
                }
            }
            drop(s);
        }
        Finish::Drop => drop(rq),
        Finish::Panic => {
            let _hold = rq;
            panic!("intended handler panic while holding request {}", id);
        }
    }
    sh.ev(Ev::FinishEnd {
        id,
        kind,
        seq: simrt::seq(),
        t: simrt::now_ns(),
        ok,
        err,
    });
}

fn dispatch(rq: Request, sh: &Arc<Shared>, rx: usize, d: &Dispatch, held: &mut Vec<Request>) {
    match d {
        Dispatch::Inline => run_program(rq, sh, rx),
        Dispatch::Spawn => {
            let sh2 = sh.clone();
            simrt::thread::spawn_named("handler", move || run_program(rq, &sh2, rx));
        }
        Dispatch::Hold(k) => {
            held.push(rq);
            if held.len() >= *k {
                for r in held.drain(..) {
                    run_program(r, sh, rx);
                }
            }
        }
    }
}

fn receiver_thread(server: Arc<Server>, sh: Arc<Shared>, rx: usize, r: Receiver) {
    if r.start_at > 0 {
        simrt::thread::sleep_until_ns(r.start_at);
    }
    let mut held: Vec<Request> = Vec::new();
    let rec = |sh: &Arc<Shared>, kind: &str, timeout: u64, t0: u64, seq0: u64, res: RecvRes| {
        sh.ev(Ev::RecvCall {
            rx,
            kind: kind.to_string(),
            timeout,
            t0,
            t1: simrt::now_ns(),
            seq0,
            seq1: simrt::seq(),
            res,
        });
    };
    let peek_id = |rq: &Request| -> String {
        for h in rq.headers() {
            if h.field.equiv("X-Id") {
                return h.value.as_str().to_string();
            }
        }
        "?".to_string()
    };
    for call in &r.calls {
        match call {
            RecvCall::Sleep(d) => simrt::thread::sleep(Duration::from_nanos(*d)),
            RecvCall::Recv | RecvCall::RecvLoop => loop {
                let (t0, s0) = (simrt::now_ns(), simrt::seq());
                match server.recv() {
                    Ok(rq) => {
                        rec(&sh, "recv", 0, t0, s0, RecvRes::Got(peek_id(&rq)));
                        dispatch(rq, &sh, rx, &r.dispatch, &mut held);
                        if *call == RecvCall::Recv {
                            break;
                        }
                    }
                    Err(e) => {
                        rec(&sh, "recv", 0, t0, s0, RecvRes::Err(e.to_string()));
                        break;
                    }
                }
            },
            RecvCall::IterNext => {
                let (t0, s0) = (simrt::now_ns(), simrt::seq());
                match server.incoming_requests().next() {
                    Some(rq) => {
                        rec(&sh, "iter", 0, t0, s0, RecvRes::Got(peek_id(&rq)));
                        dispatch(rq, &sh, rx, &r.dispatch, &mut held);
                    }
                    None => rec(&sh, "iter", 0, t0, s0, RecvRes::Err("none".into())),
                }
            }
            RecvCall::RecvTimeout(d) => {
                let (t0, s0) = (simrt::now_ns(), simrt::seq());
                match server.recv_timeout(Duration::from_nanos(*d)) {
                    Ok(Some(rq)) => {
                        rec(&sh, "recv_timeout", *d, t0, s0, RecvRes::Got(peek_id(&rq)));
                        dispatch(rq, &sh, rx, &r.dispatch, &mut held);
                    }
                    Ok(None) => rec(&sh, "recv_timeout", *d, t0, s0, RecvRes::Empty),
                    Err(e) => rec(&sh, "recv_timeout", *d, t0, s0, RecvRes::Err(e.to_string())),
                }
            }
            RecvCall::TryRecv => {
                let (t0, s0) = (simrt::now_ns(), simrt::seq());
                match server.try_recv() {
                    Ok(Some(rq)) => {
                        rec(&sh, "try_recv", 0, t0, s0, RecvRes::Got(peek_id(&rq)));
                        dispatch(rq, &sh, rx, &r.dispatch, &mut held);
                    }
                    Ok(None) => rec(&sh, "try_recv", 0, t0, s0, RecvRes::Empty),
                    Err(e) => rec(&sh, "try_recv", 0, t0, s0, RecvRes::Err(e.to_string())),
                }
            }
        }
    }
    for rq in held.drain(..) {
        run_program(rq, &sh, rx);
    }
}

/// Which of the requests sent so far are HEAD requests (their responses carry no body).
fn head_flags(sent: &[u8]) -> Vec<bool> {
    crate::httpmodel::parse_requests(sent)
        .iter()
        .filter(|m| m.class == crate::httpmodel::Class::Valid)
        .map(|m| m.is_head)
        .collect()
}

fn count_finals(bytes: &[u8], heads: &[bool]) -> usize {
    crate::httpmodel::parse_responses(bytes, &|k| heads.get(k).copied().unwrap_or(false))
        .msgs
        .iter()
        .filter(|m| m.complete && (m.status == 101 || !(100..200).contains(&m.status)))
        .count()
}

fn count_occ(hay: &[u8], pat: &[u8]) -> usize {
    if pat.is_empty() || hay.len() < pat.len() {
        return 0;
    }
    let mut n = 0;
    let mut i = 0;
    while i + pat.len() <= hay.len() {
        if &hay[i..i + pat.len()] == pat {
            n += 1;
            i += pat.len();
        } else {
            i += 1;
        }
    }
    n
}

fn client_thread(addr: simrt::net::Addr, sh: Arc<Shared>, ci: usize, sc: ConnScript) {
    if sc.open_at > 0 {
        simrt::thread::sleep_until_ns(sc.open_at);
    }
    let cev = |what: &str| {
        sh.ev(Ev::Client {
            conn: ci,
            what: what.to_string(),
            seq: simrt::seq(),
            t: simrt::now_ns(),
        })
    };
    let c = match connect_client(&addr) {
        Ok(c) => Arc::new(c),
        Err(e) => {
            sh.obs.lock().unwrap().conns[ci].connect_err = Some(format!("{:?}", e.kind()));
            return;
        }
    };
    c.set_coalesce(sc.coalesce);
    c.set_window(sc.window);
    c.set_short_writes(sc.short_writes);
    sh.clients.lock().unwrap()[ci] = Some(c.clone());
    {
        let mut o = sh.obs.lock().unwrap();
        o.conns[ci].opened = true;
        o.conns[ci].peer = c.peer_addr_seen_by_server().map(|a| a.to_string());
    }
    cev("open");
    if let (Some(_), Some((chunk, every))) = (sc.window, sc.drain) {
        let c2 = c.clone();
        simrt::thread::spawn_named("drain", move || loop {
            if c2.inflight() == 0 {
                if !c2.wait_more(c2.received_len()) {
                    // closed: consume what is left and stop
                    c2.consume(usize::MAX);
                    return;
                }
            }
            c2.consume(chunk);
            if every > 0 {
                simrt::thread::sleep(Duration::from_nanos(every));
            }
        });
    }
    let mut sent = 0usize;
    let mut sent_all: Vec<u8> = Vec::new();
    for st in &sc.steps {
        match st {
            ClientStep::Send(b) => {
                c.send(&b.0);
                sent_all.extend_from_slice(&b.0);
                sent += b.0.len();
                sh.obs.lock().unwrap().conns[ci].sent = sent;
            }
            ClientStep::Pause(d) => simrt::thread::sleep(Duration::from_nanos(*d)),
            ClientStep::AwaitBytes { pattern, count } => loop {
                let r = c.received();
                if count_occ(&r, &pattern.0) >= *count {
                    cev("await_bytes:ok");
                    break;
                }
                if !c.wait_more(r.len()) {
                    cev("await_bytes:closed");
                    break;
                }
            },
            ClientStep::AwaitFinals(n) => loop {
                let r = c.received();
                if count_finals(&r, &head_flags(&sent_all)) >= *n {
                    cev("await_finals:ok");
                    break;
                }
                if !c.wait_more(r.len()) {
                    cev("await_finals:closed");
                    break;
                }
            },
            ClientStep::HalfClose => {
                c.half_close();
                cev("half_close");
            }
            ClientStep::Close { budget, reset_err } => {
                c.close(Gone {
                    budget: *budget,
                    reset: *reset_err,
                });
                cev("close");
            }
            ClientStep::Reset => {
                c.reset();
                cev("reset");
            }
            ClientStep::AwaitEof => loop {
                if c.server_fin().is_some() {
                    cev("eof");
                    break;
                }
                if !c.wait_more(c.received_len()) {
                    cev("eof");
                    break;
                }
            },
            ClientStep::JumpWall(d) => simrt::jump_wall_clock(*d),
            ClientStep::AwaitAfterFinals(k) => loop {
                let r = c.received();
                let heads = head_flags(&sent_all);
                let p = crate::httpmodel::parse_responses(&r, &|i| heads.get(i).copied().unwrap_or(false));
                let mut finals = 0;
                let mut beyond = false;
                for m in p.msgs.iter().filter(|m| m.complete) {
                    if finals >= *k {
                        beyond = true;
                        break;
                    }
                    if m.status == 101 || !(100..200).contains(&m.status) {
                        finals += 1;
                    }
                }
                if beyond {
                    cev("await_after_finals:ok");
                    break;
                }
                if !c.wait_more(r.len()) {
                    cev("await_after_finals:closed");
                    break;
                }
            },
            ClientStep::AwaitLen(n) => loop {
                let have = c.received_len();
                if have >= *n {
                    cev("await_len:ok");
                    break;
                }
                if !c.wait_more(have) {
                    cev("await_len:closed");
                    break;
                }
            },
        }
    }
    sh.obs.lock().unwrap().conns[ci].script_done = true;
    cev("script_done");
}

fn snapshot(sh: &Arc<Shared>, label: &str) {
    let threads = simrt::threads()
        .into_iter()
        .map(|t| {
            (
                t.name.unwrap_or_else(|| "lib".into()),
                t.state,
                t.last_op.to_string(),
            )
        })
        .collect();
    let conns = sh
        .clients
        .lock()
        .unwrap()
        .iter()
        .map(|c| match c {
            Some(c) => ConnSnap {
                opened: true,
                received_len: c.received_len(),
                server_fin: c.server_fin().is_some(),
                unread_by_server: c.unread_by_server(),
                dropped_unread: c.unread_dropped_by_server(),
            },
            None => ConnSnap::default(),
        })
        .collect();
    let s = Snapshot {
        t: simrt::now_ns(),
        seq: simrt::seq(),
        threads,
        conns,
    };
    sh.obs.lock().unwrap().snaps.insert(label.to_string(), s);
}

pub fn to_cfg(
    sc: &Scenario,
    seed: u64,
    replay: Option<Vec<u32>>,
    tolerant: bool,
    record_log: bool,
) -> simrt::Config {
    simrt::Config {
        seed,
        strategy: match sc.knobs.strategy {
            Strat::Random => simrt::Strategy::Random,
            Strat::Pct { depth, est_len } => simrt::Strategy::Pct { depth, est_len },
            Strat::Burst { stay_permille } => simrt::Strategy::Burst { stay_permille },
        },
        racy_time: sc.knobs.racy_time,
        spurious: sc.knobs.spurious,
        step_cap: 2_000_000,
        replay,
        tolerant,
        stack_size: if sc.knobs.std_stack { 2 << 20 } else { 256 * 1024 },
        wall_base_secs: sc.knobs.wall_base_secs,
        record_log,
    }
}

pub fn run_scenario(
    sc: &Scenario,
    seed: u64,
    replay: Option<Vec<u32>>,
    tolerant: bool,
    record_log: bool,
) -> RunOut {
    let cfg = to_cfg(sc, seed, replay, tolerant, record_log);
    let sh = Arc::new(Shared {
        obs: Mutex::new(Obs {
            conns: vec![ConnObs::default(); sc.conns.len()],
            receivers_finished: vec![false; sc.receivers.len()],
            ..Default::default()
        }),
        programs: sc.programs.clone(),
        default_program: sc.default_program.clone(),
        begun: simrt::sync::Mutex::new(BTreeSet::new()),
        begun_cv: simrt::sync::Condvar::new(),
        clients: Mutex::new((0..sc.conns.len()).map(|_| None).collect()),
        anon: Mutex::new(0),
    });
    let sh_root = sh.clone();
    let sc2 = sc.clone();
    let base = crate::allocmon::begin();
    let report = simrt::run(cfg, move || driver(sc2, sh_root));
    let (max_alloc, peak_live) = crate::allocmon::end(base);
    // collect client-side logs (outside the world; plain data access)
    {
        let clients = sh.clients.lock().unwrap();
        let mut obs = sh.obs.lock().unwrap();
        for (i, c) in clients.iter().enumerate() {
            if let Some(c) = c {
                let co = &mut obs.conns[i];
                co.received = B(c.received());
                co.server_wrote_len = c.server_wrote().len();
                co.marks = c
                    .marks()
                    .iter()
                    .map(|m| (m.offset, m.len, m.seq, m.now))
                    .collect();
                co.server_fin = c.server_fin();
            }
        }
    }
    let obs = sh.obs.lock().unwrap().clone();
    RunOut {
        report,
        obs,
        max_alloc,
        peak_live,
    }
}

fn driver(sc: Scenario, sh: Arc<Shared>) {
    let kind = if sc.knobs.unix_listener {
        Kind::Unix
    } else {
        Kind::Tcp
    };
    let l = Listener::bind(kind);
    let addr = l.local_addr().unwrap();
    let server = Arc::new(Server::from_listener(l, None).expect("from_listener"));
    let mut server_opt = Some(server.clone());
    drop(server);
    let mut rx_handles = Vec::new();
    for (i, r) in sc.receivers.iter().enumerate() {
        let (s2, sh2, r2) = (server_opt.as_ref().unwrap().clone(), sh.clone(), r.clone());
        rx_handles.push(simrt::thread::spawn_named("receiver", move || {
            receiver_thread(s2, sh2, i, r2)
        }));
    }
    for (i, c) in sc.conns.iter().enumerate() {
        if c.disabled {
            continue;
        }
        let (a2, sh2, c2) = (addr.clone(), sh.clone(), c.clone());
        simrt::thread::spawn_named("client", move || client_thread(a2, sh2, i, c2));
    }

    let mut closed_clients = false;
    let drop_server = |server_opt: &mut Option<Arc<Server>>,
                       rx_handles: &Vec<simrt::thread::JoinHandle<()>>,
                       sh: &Arc<Shared>| {
        let server = match server_opt.take() {
            Some(s) => s,
            None => return,
        };
        // release receivers that are still inside a receive call
        for _round in 0..24 {
            let alive = rx_handles.iter().filter(|h| !h.is_finished()).count();
            if alive == 0 {
                break;
            }
            for _ in 0..alive {
                server.unblock();
            }
            simrt::quiesce();
        }
        let fin: Vec<bool> = rx_handles.iter().map(|h| h.is_finished()).collect();
        let all = fin.iter().all(|f| *f);
        sh.obs.lock().unwrap().receivers_finished = fin;
        let (t0, s0) = (simrt::now_ns(), simrt::seq());
        let sole = Arc::strong_count(&server) == 1;
        drop(server);
        if all && sole {
            let mut o = sh.obs.lock().unwrap();
            o.server_dropped = true;
            o.events.push(Ev::ServerDrop {
                seq0: s0,
                seq1: simrt::seq(),
                t0,
                t1: simrt::now_ns(),
            });
        }
    };
    let close_clients = |sh: &Arc<Shared>| {
        let cs: Vec<Arc<ClientEnd>> = sh
            .clients
            .lock()
            .unwrap()
            .iter()
            .filter_map(|c| c.clone())
            .collect();
        for c in cs {
            c.half_close();
        }
    };

    for st in &sc.driver {
        match st {
            DriverStep::SleepUntil(t) => simrt::thread::sleep_until_ns(*t),
            DriverStep::Sleep(d) => simrt::thread::sleep(Duration::from_nanos(*d)),
            DriverStep::Quiesce => simrt::quiesce(),
            DriverStep::Settle => simrt::settle(),
            DriverStep::Unblock(n) => {
                if let Some(s) = server_opt.as_ref() {
                    for _ in 0..*n {
                        sh.ev(Ev::Unblock {
                            seq: simrt::seq(),
                            t: simrt::now_ns(),
                        });
                        s.unblock();
                    }
                }
            }
            DriverStep::DropServer => drop_server(&mut server_opt, &rx_handles, &sh),
            DriverStep::Connect(label) => {
                let r = connect_client(&addr);
                let (ok, err) = match &r {
                    Ok(_) => (true, None),
                    Err(e) => (false, Some(format!("{:?}", e.kind()))),
                };
                sh.ev(Ev::Connect {
                    label: label.clone(),
                    ok,
                    err,
                    t: simrt::now_ns(),
                    seq: simrt::seq(),
                });
                if let Ok(c) = r {
                    c.close(Gone {
                        budget: 0,
                        reset: false,
                    });
                }
            }
            DriverStep::Snapshot(label) => snapshot(&sh, label),
            DriverStep::CloseClients => {
                close_clients(&sh);
                closed_clients = true;
            }
            DriverStep::JumpWall(d) => simrt::jump_wall_clock(*d),
        }
    }
    // standard epilogue
    simrt::quiesce();
    snapshot(&sh, "main");
    if !closed_clients {
        close_clients(&sh);
    }
    simrt::quiesce();
    snapshot(&sh, "closed");
    drop_server(&mut server_opt, &rx_handles, &sh);
    simrt::quiesce();
    simrt::thread::sleep(Duration::from_millis(6000));
    simrt::quiesce();
    snapshot(&sh, "final");
}
