//! C10 — malformed or unsupported requests never reach the application and never hang.
//! C16 — header syntax that enables request smuggling is rejected, not interpreted.
//! C12 — connection persistence is decided correctly and the connection closes in order.

use super::conv::{compare, Disc};
use super::gen::*;
use super::*;

pub struct C10c;
pub static C10: C10c = C10c;
pub struct C16c;
pub static C16: C16c = C16c;
pub struct C12c;
pub static C12: C12c = C12c;

fn raw(lines: &[String], body: &[u8]) -> Vec<u8> {
    let mut o = Vec::new();
    for l in lines {
        o.extend_from_slice(l.as_bytes());
        o.extend_from_slice(b"\r\n");
    }
    o.extend_from_slice(b"\r\n");
    o.extend_from_slice(body);
    o
}

fn raw_bytes(lines: &[Vec<u8>]) -> Vec<u8> {
    let mut o = Vec::new();
    for l in lines {
        o.extend_from_slice(l);
        o.extend_from_slice(b"\r\n");
    }
    o.extend_from_slice(b"\r\n");
    o
}

/// (bytes, class tag) of a bad request with the given id
pub fn bad_request(g: &mut Rng, id: &str) -> (Vec<u8>, String) {
    let idl = format!("X-Id: {}", id);
    match g.below(7) {
        0 => {
            let l = g.pick(&["GET /only-two", "BROKEN", "GET", "/ HTTP/1.1"]).to_string();
            (raw(&[l, "Host: sim".into(), idl], b""), "short_request_line".into())
        }
        1 => {
            let v = *g.pick(&["HTTP/1.2", "http/1.1", "HTTP/1", "HTTP/11", "FOO", "HTTP/1.10", "HTTP/4.0", "HTTP/2", "HTTPS/1.1"]);
            (raw(&[format!("GET /v {}", v), "Host: sim".into(), idl], b""), format!("unknown_version"))
        }
        2 => {
            let v = *g.pick(&["HTTP/2.0", "HTTP/3.0"]);
            // with or without a body: what follows the refused request must be parsed after its body
            let blen = *g.pick(&[0usize, 0, 5, 1024, 1025, 3000]);
            if blen == 0 {
                (raw(&[format!("GET /v {}", v), "Host: sim".into(), idl], b""), "version_above_1_1".into())
            } else {
                let body = requestlike_body(blen);
                (raw(&[format!("POST /v {}", v), "Host: sim".into(), idl, format!("Content-Length: {}", blen)], &body), "version_above_1_1_with_body".into())
            }
        }
        3 => {
            let l = g.pick(&["NoColonHere", "Host sim", "garbage line without colon", " ", "\t", "   \t "]).to_string();
            let first = g.chance(1, 2);
            let lines = if first {
                vec!["GET /h HTTP/1.1".to_string(), l, idl]
            } else {
                vec!["GET /h HTTP/1.1".to_string(), idl, l]
            };
            (raw(&lines, b""), "header_without_colon".into())
        }
        4 => {
            let mut bad = b"X-Bad: caf".to_vec();
            bad.extend_from_slice(*g.pick(&[&b"\xc3\xa9"[..], &b"\xff"[..], &b"\x80"[..]]));
            let in_line = g.chance(1, 3);
            let lines: Vec<Vec<u8>> = if in_line {
                let mut l = b"GET /caf".to_vec();
                l.extend_from_slice(b"\xc3\xa9 HTTP/1.1");
                vec![l, idl.clone().into_bytes()]
            } else {
                vec![b"GET /n HTTP/1.1".to_vec(), idl.clone().into_bytes(), bad]
            };
            (raw_bytes(&lines), "non_ascii".into())
        }
        _ => {
            let name = *g.pick(&["Expect", "expect", "EXPECT", "eXpEcT"]);
            let val = *g.pick(&["200-ok", "100-continue-x", "x100-continue", "continue", "100", "100-continue, foo", "", "189-dummy"]);
            // the refusal is decided by the head alone: a body that is announced but withheld
            // (a client sending Expect waits for a status first) must not delay the 417
            let cl = *g.pick(&[0usize, 0, 5, 1024, 1025, 70000]);
            // the expectation is refused whatever the version says
            let ver = *g.pick(&["HTTP/1.1", "HTTP/1.1", "HTTP/1.0"]);
            (raw(&[format!("POST /e {}", ver), idl, format!("{}: {}", name, val), format!("Content-Length: {}", cl)], b""), if cl == 0 { "bad_expect".into() } else { "bad_expect_body_withheld".into() })
        }
    }
}

fn pipeline_with(g: &mut Rng, sc: &mut Scenario, ci: usize, n: usize, bad_pos: usize, bad: Vec<u8>, delays: bool) -> Vec<Vec<u8>> {
    let mut msgs = vec![];
    for r in 0..n {
        let id = format!("c{}r{}", ci, r);
        if r == bad_pos {
            msgs.push(bad.clone());
            continue;
        }
        let mut rq = Req::get(&id);
        if g.chance(1, 4) {
            rq = rq.with_body(token_body("b", *g.pick(&[1usize, 700, 1024, 1025, 3000])));
        }
        msgs.push(spice(g, rq, true, true).bytes());
        let mut p = Program::respond(200, token_body(&id, *g.pick(&[0usize, 10, 2000])));
        if delays {
            p.delay = *g.pick(&[0u64, 0, MS, 5 * MS, 100 * MS]);
            p.delay2 = *g.pick(&[0u64, 0, 0, 50 * MS]);
        }
        let made = crate::httpmodel::parse_requests(msgs.last().unwrap());
        let (has_body, is_head) = made.first().map(|m| (!m.body.is_empty(), m.is_head)).unwrap_or((false, false));
        if has_body || made.first().map(|m| m.expects_continue).unwrap_or(false) {
            // asking for the body of an expecting request writes (and flushes) the interim response
            p.body = match g.below(3) {
                0 => BodyPlan::None,
                1 => BodyPlan::Touch(1),
                _ => BodyPlan::ToEof { buf: 512 },
            };
        }
        if !is_head && g.chance(1, 4) {
            let lit = literal_response(200, &token_body(&id, 10));
            p.finish = Finish::Writer { parts: split_parts(&lit, g.usize(2, 3), g), flush: true };
        }
        sc.programs.insert(id, p);
    }
    msgs
}

fn common_knobs(rng: &mut Rng, sc: &mut Scenario) {
    let mut k = rng.sub("knobs");
    sc.knobs.strategy = strategy(&mut k);
    sc.knobs.spurious = k.chance(1, 10);
    sc.knobs.unix_listener = k.chance(1, 6);
}

fn seg_of(g: &mut Rng) -> Seg {
    match g.below(5) {
        0 | 1 => Seg::Whole,
        2 => Seg::PerMessage,
        3 => Seg::Random(3),
        _ => Seg::Fixed(*g.pick(&[1usize, 5, 40])),
    }
}

impl Campaign for C10c {
    fn id(&self) -> &'static str {
        "C10"
    }
    fn rule(&self) -> &'static str {
        "seeded scenarios: a pipeline of 1..4 requests with one mutated into a malformed/unsupported class (short request line, unknown version token, version above 1.1, header without colon, non-ASCII byte, Expect other than 100-continue in any letter case, on HTTP/1.1 and HTTP/1.0 requests) at every position; earlier requests are answered by handler threads after generated virtual delays (plain responses, Expect: 100-continue + as_reader whose interim response is flushed, raw writers flushed part-way) so the automatic response has to wait its turn; in one run of six the client's bytes end 1..4 bytes before the end of the offending head (then waiting, or closing its sending side); generated segmentation; non-trivial = the bad request is not the first of its connection or further requests follow it; distinct = interleaving fingerprint"
    }
    fn runs(&self, tier: Tier) -> u64 {
        match tier {
            Tier::Quick => 150_000,
            Tier::Thorough => 4_000_000,
        }
    }
    fn generate(&self, rng: &mut Rng, index: u64, _tier: Tier) -> Scenario {
        if index % 5 == 4 {
            return super::universal::gen_universal(rng, index, true);
        }
        let mut sc = Scenario::new();
        common_knobs(rng, &mut sc);
        let mut g = rng.sub("scenario");
        let n = g.usize(1, 4);
        let bad_pos = (index as usize) % n;
        let (mut bad, mut tag) = bad_request(&mut g, &format!("c0r{}", bad_pos));
        if tag.starts_with("version_above") && g.chance(1, 3) {
            // a further rejected request directly behind the refused version (the connection stays usable after a 505)
            let (bad2, tag2) = bad_request(&mut g, "c0r8");
            bad.extend_from_slice(&bad2);
            tag = format!("{}+{}", tag, tag2);
        }
        let mut msgs = pipeline_with(&mut g, &mut sc, 0, n, bad_pos, bad, true);
        // one run in six: the client's bytes end inside the offending head, 1..4 bytes before its
        // end (the outcome is due as soon as the offending line is complete, whatever follows)
        let cut_short = index % 6 == 3 && !tag.contains('+');
        if cut_short {
            msgs.truncate(bad_pos + 1);
            let last = msgs.last_mut().unwrap();
            // inside the head: an announced body is dropped as well
            let head_end = last.windows(4).position(|w| w == b"\r\n\r\n").map(|p| p + 4).unwrap_or(last.len());
            let cut = g.usize(1, 4).min(head_end - 1);
            last.truncate(head_end - cut);
        }
        let seg = seg_of(&mut g);
        let mut c = ConnScript { steps: segment(&msgs, seg, *g.pick(&[0u64, MS]), &mut g), ..Default::default() };
        c.coalesce = g.chance(1, 2);
        if g.chance(1, if cut_short { 2 } else { 5 }) {
            c.steps.push(ClientStep::HalfClose);
        }
        sc.conns.push(c);
        sc.receivers = loop_receivers(g.usize(1, 2), if g.chance(3, 4) { Dispatch::Spawn } else { Dispatch::Inline });
        sc.note = format!("C10 index {} class={} pos={}/{}{}", index, tag, bad_pos, n, if cut_short { " cut short" } else { "" });
        sc
    }
    fn check(&self, sc: &Scenario, out: &RunOut) -> Verdict {
        if sc.note.starts_with("universal") {
            return super::universal::universal_verdict("C10", sc, out);
        }
        let mut v = Verdict::default();
        let class = sc.note.split("class=").nth(1).and_then(|s| s.split(' ').next()).unwrap_or("?").to_string();
        for ci in 0..sc.conns.len() {
            if sc.conns[ci].disabled {
                continue;
            }
            let (e, discs) = compare(sc, out, ci);
            let main = snap(out, "main").unwrap();
            for d in discs {
                let (clause, text) = match &d {
                    Disc::Forbidden(id) => ("C10.not_delivered", format!("request {} must never reach the application but was delivered", id)),
                    Disc::Phantom(id) => ("C10.not_delivered", format!("something the client never sent as a request was delivered ({})", id)),
                    Disc::WrongResponse { k, got, want, why, .. } => ("C10.outcome", format!("final response #{} has status {}, expected {} ({})", k, got, want, why)),
                    Disc::ExtraResponse { k, got } => ("C10.outcome", format!("unexpected extra response #{} with status {}", k, got)),
                    Disc::UnexpectedEof => ("C10.outcome", "the server closed the connection although it must remain usable".to_string()),
                    Disc::MissingResponse { k, want, why } => ("C10.no_stall", format!("at quiescence response #{} (status {}, {}) has not arrived", k, want, why)),
                    Disc::MissingEof => ("C10.no_stall", "at quiescence the server has not closed the connection".to_string()),
                    Disc::NotDelivered(id) => ("C10.no_stall", format!("at quiescence request {} has not been handed to the application", id)),
                    Disc::Unparseable(s) => {
                        v.inconclusive = Some(s.clone());
                        continue;
                    }
                };
                v.violations.push(Violation {
                    clause: clause.into(),
                    signature: format!("class {}", class),
                    detail: format!("conn {} ({}; expected statuses {:?}, eof={}): {}. blocked: {}", ci, sc.note, e.finals.iter().map(|f| f.status).collect::<Vec<_>>(), e.eof, text, describe_blocked(main)),
                });
                break;
            }
        }
        v.nontrivial = !sc.note.contains("pos=0/1");
        v.tags.push(format!("class={}", class));
        v
    }
}

// ---------------------------------------------------------------------------

pub fn smuggle_request(g: &mut Rng, id: &str, smuggled_id: &str) -> (Vec<u8>, String) {
    let (mut bytes, tag) = smuggle_request_plain(g, id, smuggled_id);
    if g.chance(1, 4) {
        // the offending line comes late in a long head: k well-formed fields precede it
        let k = *g.pick(&[20usize, 63, 64, 65, 100, 300]);
        let filler: String = (0..k).map(|i| format!("X-F{}: f{}\r\n", i, i)).collect();
        if let Some(p) = bytes.windows(2).position(|w| w == b"\r\n") {
            let tail = bytes.split_off(p + 2);
            bytes.extend_from_slice(filler.as_bytes());
            bytes.extend_from_slice(&tail);
        }
    }
    (bytes, tag)
}

fn smuggle_request_plain(g: &mut Rng, id: &str, smuggled_id: &str) -> (Vec<u8>, String) {
    let inner = Req::get(smuggled_id).bytes();
    let idl = format!("X-Id: {}", id);
    let ws = *g.pick(&[" ", "\t", "  "]);
    match g.below(7) {
        6 => {
            // a line of nothing but whitespace (degenerate line folding) before the real blank line
            let wsline = g.pick(&[" ", "\t", "  ", " \t "]).to_string();
            let lines = if g.chance(1, 2) {
                vec!["POST /s HTTP/1.1".to_string(), idl, wsline, format!("Content-Length: {}", inner.len())]
            } else {
                vec!["POST /s HTTP/1.1".to_string(), wsline, idl, format!("Content-Length: {}", inner.len())]
            };
            (raw(&lines, &inner), "ws_only_line".into())
        }
        0 => {
            // whitespace before the name (first header line or a later one)
            let name = *g.pick(&["Content-Length", "Transfer-Encoding", "X-Other"]);
            let val = if name == "Transfer-Encoding" { "chunked".to_string() } else { inner.len().to_string() };
            let bad = format!("{}{}: {}", ws, name, val);
            let lines = if g.chance(1, 2) {
                vec!["POST /s HTTP/1.1".to_string(), bad, idl]
            } else {
                vec!["POST /s HTTP/1.1".to_string(), idl, bad]
            };
            (raw(&lines, &inner), "ws_before_name".into())
        }
        1 => {
            let bad = g.pick(&["Content Length: 5", "Transfer\tEncoding: chunked", "X Other: v", "Content- Length: 5"]).to_string();
            (raw(&["POST /s HTTP/1.1".to_string(), idl, bad], &inner), "ws_inside_name".into())
        }
        2 => {
            let name = *g.pick(&["Content-Length", "Transfer-Encoding", "X-Other", "Host"]);
            let val = if name == "Transfer-Encoding" { "chunked".to_string() } else { inner.len().to_string() };
            let bad = format!("{}{}: {}", name, ws, val);
            (raw(&["POST /s HTTP/1.1".to_string(), idl, bad], &inner), "ws_before_colon".into())
        }
        _ => {
            let n = inner.len();
            let val = match g.below(9) {
                0 => "".to_string(),
                1 => format!("+{}", n),
                2 => format!("-{}", n),
                3 => format!("{}x", n),
                4 => format!("x{}", n),
                5 => format!("{} {}", n, n),
                6 => format!("{}, {}", n, n),
                7 => "18446744073709551616".to_string(),
                _ => "99999999999999999999999999".to_string(),
            };
            let name = *g.pick(&["Content-Length", "content-length", "CONTENT-LENGTH"]);
            (raw(&["POST /s HTTP/1.1".to_string(), idl, format!("{}: {}", name, val)], &inner), format!("bad_content_length"))
        }
    }
}

impl Campaign for C16c {
    fn id(&self) -> &'static str {
        "C16"
    }
    fn rule(&self) -> &'static str {
        "seeded scenarios: a pipeline of 1..4 requests, one of which uses smuggling-prone header syntax (SP/HTAB before the header name, inside it, or before the colon, on framing headers and on arbitrary ones; Content-Length values empty, signed, non-digit, mixed, list, overflowing; in a quarter of the runs after 20..300 well-formed fields) at every position, its body being a complete would-be smuggled request, followed by further pipelined requests; earlier requests answered with delays; non-trivial = every run (each carries an offending request followed by a smuggled one); distinct = interleaving fingerprint"
    }
    fn runs(&self, tier: Tier) -> u64 {
        match tier {
            Tier::Quick => 120_000,
            Tier::Thorough => 4_000_000,
        }
    }
    fn generate(&self, rng: &mut Rng, index: u64, _tier: Tier) -> Scenario {
        let mut sc = Scenario::new();
        common_knobs(rng, &mut sc);
        let mut g = rng.sub("scenario");
        let n = g.usize(1, 4);
        let bad_pos = (index as usize) % n;
        let (bad, tag) = smuggle_request(&mut g, &format!("c0r{}", bad_pos), "c0r9");
        let msgs = pipeline_with(&mut g, &mut sc, 0, n, bad_pos, bad, true);
        sc.programs.insert("c0r9".into(), Program::respond(200, b"SMUGGLED".to_vec()));
        let seg = seg_of(&mut g);
        let mut c = ConnScript { steps: segment(&msgs, seg, *g.pick(&[0u64, MS]), &mut g), ..Default::default() };
        c.coalesce = g.chance(1, 2);
        sc.conns.push(c);
        sc.receivers = loop_receivers(g.usize(1, 2), if g.chance(3, 4) { Dispatch::Spawn } else { Dispatch::Inline });
        sc.note = format!("C16 index {} class={} pos={}/{}", index, tag, bad_pos, n);
        sc
    }
    fn check(&self, sc: &Scenario, out: &RunOut) -> Verdict {
        let mut v = Verdict::default();
        let class = sc.note.split("class=").nth(1).and_then(|s| s.split(' ').next()).unwrap_or("?").to_string();
        let (e, discs) = compare(sc, out, 0);
        let main = snap(out, "main").unwrap();
        for d in discs {
            let (clause, text) = match &d {
                Disc::Forbidden(id) | Disc::Phantom(id) => ("C16.not_delivered", format!("request {} (the offending request or the one smuggled behind it) was delivered to the application", id)),
                Disc::WrongResponse { k, got, want, why, .. } => ("C16.rejected", format!("final response #{} has status {}, expected {} ({})", k, got, want, why)),
                Disc::ExtraResponse { k, got } => ("C16.rejected", format!("extra response #{} with status {}: bytes after the offending head were parsed as a request", k, got)),
                Disc::MissingResponse { k, want, why } => ("C16.rejected", format!("at quiescence response #{} (status {}, {}) has not arrived", k, want, why)),
                Disc::MissingEof => ("C16.closed", "the connection was not closed after the offending request".to_string()),
                Disc::UnexpectedEof => ("C16.closed", "unexpected close".to_string()),
                Disc::NotDelivered(id) => {
                    v.inconclusive = Some(format!("earlier request {} not delivered", id));
                    continue;
                }
                Disc::Unparseable(s) => {
                    v.inconclusive = Some(s.clone());
                    continue;
                }
            };
            v.violations.push(Violation {
                clause: clause.into(),
                signature: format!("class {}", class),
                detail: format!("{} (expected statuses {:?} then close): {}. blocked: {}", sc.note, e.finals.iter().map(|f| f.status).collect::<Vec<_>>(), text, describe_blocked(main)),
            });
            break;
        }
        v.nontrivial = true;
        v.tags.push(format!("class={}", class));
        v
    }
}

// ---------------------------------------------------------------------------

impl Campaign for C12c {
    fn id(&self) -> &'static str {
        "C12"
    }
    fn rule(&self) -> &'static str {
        "seeded scenarios: pipelines of 1..4 requests, version {1.0,1.1} x one Connection header {absent, close, keep-alive, upgrade, other token, token lists; any letter case} at every position, followed by further valid requests; handlers answer after generated delays and in any order; the client half-closes after its last byte in half of the runs; in one run of six the varied request carries a streamed body (Content-Length above the buffering limit, or chunked) that the handler never reads, sent at once or held back by the client until the response has arrived and, when the request ends the connection, until end-of-stream; the server must not release the connection with bytes of the last request unread; one run in five is a mixed-feature conversation; non-trivial = a connection-ending request is followed by further bytes, or the client half-closes with answers outstanding; distinct = interleaving fingerprint"
    }
    fn runs(&self, tier: Tier) -> u64 {
        match tier {
            Tier::Quick => 100_000,
            Tier::Thorough => 3_000_000,
        }
    }
    fn generate(&self, rng: &mut Rng, index: u64, _tier: Tier) -> Scenario {
        if index % 5 == 4 {
            return super::universal::gen_universal(rng, index, false);
        }
        let mut sc = Scenario::new();
        common_knobs(rng, &mut sc);
        let mut g = rng.sub("scenario");
        let n = g.usize(1, 4);
        let special = (index as usize) % n;
        // one run in six: the special request announces a streamed body which the client holds
        // back until the server has answered (the handler never reads it) and, when that request
        // ends the connection, until the server has closed its sending side
        let streamed = index % 6 == 5;
        let mut msgs = vec![];
        for r in 0..n {
            let id = format!("c0r{}", r);
            let mut rq = Req::get(&id);
            if r == special || g.chance(1, 4) {
                rq.version = g.pick(&["HTTP/1.0", "HTTP/1.1"]).to_string();
                let conn = *g.pick(&[
                    "", "close", "Close", "CLOSE", "keep-alive", "Keep-Alive", "KEEP-ALIVE", "upgrade", "Upgrade", "foo",
                    "keep-alive, foo", "foo, close", "TE, close", "close, keep-alive", "foo, Keep-Alive", "TE",
                ]);
                if !conn.is_empty() {
                    let name = *g.pick(&["Connection", "connection", "CONNECTION"]);
                    rq = rq.header(name, conn);
                }
            }
            if r == special && streamed {
                // a streamed body (declared length above the buffering limit, or chunked)
                let payload = token_body("w", *g.pick(&[1025usize, 3000, 9000]));
                rq = if g.chance(1, 3) { rq.with_chunked(&payload, &[700, 2000]) } else { rq.with_body(payload) };
            } else if g.chance(1, 5) {
                rq = rq.with_body(token_body("b", *g.pick(&[3usize, 1024])));
                // with_body turned it into POST; keep Connection header position irrelevant
            }
            msgs.push(rq.bytes());
            let mut p = Program::respond(200, token_body(&id, *g.pick(&[0usize, 10, 3000])));
            p.delay = *g.pick(&[0u64, 0, MS, 10 * MS, SEC]);
            if g.chance(1, 8) {
                p.finish = Finish::Drop;
            }
            sc.programs.insert(id, p);
        }
        let seg = seg_of(&mut g);
        let pause = *g.pick(&[0u64, MS]);
        let mut c = ConnScript::default();
        // withholding is only meaningful when every earlier message is an ordinary persistent
        // request (otherwise the special one is never reached and nothing is due for it)
        let model = crate::httpmodel::parse_requests(&msgs.concat());
        let reached = model.len() > special && model[..special].iter().all(|m| m.class == crate::httpmodel::Class::Valid && !m.last);
        // half of those bodies are held back, the others sent at once and simply never read
        let withhold = streamed && g.chance(1, 2);
        if streamed && reached {
            let p = sc.programs.get_mut(&format!("c0r{}", special)).unwrap();
            p.body = BodyPlan::None;
        }
        if withhold && reached {
            let m = &model[special];
            let head_len = m.head_end - m.start;
            let sp = &msgs[special];
            let upto = head_len + if g.chance(1, 2) { 0 } else { g.usize(0, (sp.len() - head_len).saturating_sub(1)) };
            let mut first: Vec<Vec<u8>> = msgs[..special].to_vec();
            first.push(sp[..upto].to_vec());
            c.steps = segment(&first, seg, pause, &mut g);
            c.steps.push(ClientStep::AwaitAfterFinals(special));
            if m.last {
                c.steps.push(ClientStep::AwaitEof);
            }
            if !m.last || g.chance(1, 2) {
                let mut rest: Vec<Vec<u8>> = vec![sp[upto..].to_vec()];
                rest.extend(msgs[special + 1..].iter().cloned());
                c.steps.extend(segment(&rest, seg, pause, &mut g));
            }
        } else {
            c.steps = segment(&msgs, seg, pause, &mut g);
        }
        c.coalesce = g.chance(1, 2);
        if g.chance(1, 2) {
            c.steps.push(ClientStep::HalfClose);
        }
        sc.conns.push(c);
        sc.receivers = loop_receivers(g.usize(1, 2), if g.chance(3, 4) { Dispatch::Spawn } else { Dispatch::Inline });
        sc.note = format!("C12 index {} n={}{}", index, n, if withhold && reached { " withheld" } else if streamed && reached { " streamed body unread" } else { "" });
        sc
    }
    fn check(&self, sc: &Scenario, out: &RunOut) -> Verdict {
        if sc.note.starts_with("universal") {
            return super::universal::universal_verdict("C12", sc, out);
        }
        let mut v = Verdict::default();
        let (e, discs) = compare(sc, out, 0);
        let main = snap(out, "main").unwrap();
        let ender = e.msgs.iter().find(|m| m.last).map(|m| format!("{}/{}.{} Connection={:?}", m.id.clone().unwrap_or_default(), m.version.0, m.version.1, crate::httpmodel::header(&m.headers, "Connection")));
        for d in discs {
            let (clause, sig, text) = match &d {
                Disc::Forbidden(id) | Disc::Phantom(id) => ("C12.nothing_after_last", "a request after the connection-ending one was served", format!("request {} was delivered although the connection had ended with {:?}", id, ender)),
                Disc::ExtraResponse { k, got } => ("C12.nothing_after_last", "a response beyond the connection-ending request", format!("extra response #{} (status {}) after the connection-ending request {:?}", k, got, ender)),
                Disc::MissingEof => ("C12.eof_after_last", "server did not close after the last response", format!("all received requests are answered but the server has not closed its sending side (connection ended by {:?}, client half-closed: {})", ender, super::conv::client_half_closes(&sc.conns[0]))),
                Disc::UnexpectedEof => ("C12.stays_open", "server closed a connection that must persist", "the server closed its sending side although no request ended the connection and the client keeps it open".to_string()),
                Disc::NotDelivered(id) => ("C12.stays_open", "a later request on a persistent connection was not served", format!("request {} was not delivered although the connection must persist", id)),
                Disc::MissingResponse { k, want, .. } => ("C12.answered_before_close", "a received request was left unanswered", format!("response #{} (status {}) never arrived", k, want)),
                Disc::WrongResponse { k, got, want, .. } => ("C12.answered_before_close", "wrong response", format!("response #{} has status {}, expected {}", k, got, want)),
                Disc::Unparseable(s) => {
                    v.inconclusive = Some(s.clone());
                    continue;
                }
            };
            v.violations.push(Violation {
                clause: clause.into(),
                signature: sig.into(),
                detail: format!("{}: {}. blocked: {}", sc.note, text, describe_blocked(main)),
            });
            break;
        }
        if v.violations.is_empty() {
            if let Some((id, n)) = super::conv::closed_with_unread(sc, out, 0, &e) {
                v.violations.push(Violation {
                    clause: "C12.orderly_close".into(),
                    signature: "the connection is released with bytes of the last request still unread".into(),
                    detail: format!("{}: the server shut down its reading side / closed the socket while {} bytes of the body of the connection-ending request {} were still unread (a kernel answers that close with a reset, which can destroy the tail of the last response)", sc.note, n, id),
                });
            }
        }
        let bytes = sent_bytes(&sc.conns[0]);
        let after = e.msgs.iter().find(|m| m.last).map(|m| m.end < bytes.len()).unwrap_or(false);
        v.nontrivial = after || super::conv::client_half_closes(&sc.conns[0]);
        if let Some(m) = e.msgs.iter().find(|m| m.last) {
            v.tags.push(format!("ender={}.{}:{}", m.version.0, m.version.1, crate::httpmodel::header(&m.headers, "Connection").unwrap_or("-").to_ascii_lowercase()));
        } else {
            v.tags.push("ender=none".into());
        }
        v
    }
}
