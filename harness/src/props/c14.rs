//! C14 — no client input aborts the process, panics a thread or forces huge allocation.

use super::gen::*;
use super::*;

pub struct C14c;
pub static C14: C14c = C14c;

fn hostile(g: &mut Rng, id: &str) -> (Vec<u8>, String) {
    let idl = format!("X-Id: {}", id);
    let line = |lines: &[String], body: &[u8]| -> Vec<u8> {
        let mut o = Vec::new();
        for l in lines {
            o.extend_from_slice(l.as_bytes());
            o.extend_from_slice(b"\r\n");
        }
        o.extend_from_slice(b"\r\n");
        o.extend_from_slice(body);
        o
    };
    match g.below(10) {
        9 => {
            // a long uninterrupted run of small requests on one connection: thousands of requests
            // the library refuses itself (unsupported version: the connection stays usable), or
            // thousands of ordinary ones
            let n = *g.pick(&[3000usize, 5000, 8000]);
            if g.chance(2, 3) {
                let v = *g.pick(&["HTTP/2.0", "HTTP/3.0", "HTTP/1.2"]);
                (format!("GET /v HTTP/1.1\r\n{}\r\n\r\n{}", idl, format!("GET / {}\r\n\r\n", v).repeat(n)).into_bytes(), "refused_version_flood".into())
            } else {
                (format!("GET /v HTTP/1.1\r\n{}\r\n\r\n{}", idl, "GET /f HTTP/1.1\r\n\r\n".repeat(n / 4)).into_bytes(), "request_flood".into())
            }
        }
        8 => {
            // TE lists with weights that are not ordinary numbers (the response path parses them)
            let n = *g.pick(&[1usize, 2, 5, 21, 22, 40, 200]);
            let mut elems = vec![];
            for i in 0..n {
                let w = *g.pick(&["NaN", "nan", "inf", "-inf", "1e39", "-1", "0", "0.5", "1", "", "abc", "0x1p3", "1.5", "0.001"]);
                let name = *g.pick(&["chunked", "identity", "trailers", "gzip", "x"]);
                elems.push(if i % 3 == 0 && w.is_empty() { name.to_string() } else { format!("{};q={}", name, w) });
            }
            let name = *g.pick(&["TE", "te"]);
            (line(&["GET /te HTTP/1.1".into(), idl, format!("{}: {}", name, elems.join(", "))], b""), "te_weights".into())
        }
        0 | 1 => {
            // declared length far beyond what is sent
            let cl = g.pick(&[
                "268435456", "4294967296", "99999999999999", "9223372036854775807", "18446744073709551615",
                "18446744073709551614", "1099511627776", "2147483648",
            ]).to_string();
            let sent = *g.pick(&[0usize, 1, 100, 3000]);
            (line(&["POST /big HTTP/1.1".into(), idl, format!("Content-Length: {}", cl)], &token_body("h", sent)), "huge_content_length".into())
        }
        2 => {
            let sz = g.pick(&["FFFFFFFFFFFFFFFF", "7fffffffffffffff", "fffffffffffffff", "10000000000000000", "FFFFFFFFFFFFFFFFF", "40000000", "100000000"]).to_string();
            let sent = *g.pick(&[0usize, 10, 2000]);
            let mut body = format!("{}\r\n", sz).into_bytes();
            body.extend_from_slice(&token_body("h", sent));
            (line(&["POST /chunk HTTP/1.1".into(), idl, "Transfer-Encoding: chunked".into()], &body), "huge_chunk_size".into())
        }
        3 => {
            let n = *g.pick(&[1000usize, 3000, 8000]);
            let mut lines = vec!["GET /many HTTP/1.1".to_string(), idl];
            for i in 0..n {
                lines.push(format!("X-H{}: v{}", i, i));
            }
            (line(&lines, b""), "thousands_of_headers".into())
        }
        4 => {
            let n = *g.pick(&[100_000usize, 1 << 20, 2 << 20]);
            let big = "a".repeat(n);
            if g.chance(1, 2) {
                (line(&["GET /long HTTP/1.1".into(), idl, format!("X-Long: {}", big)], b""), "megabyte_header".into())
            } else {
                (line(&[format!("GET /{} HTTP/1.1", big), idl], b""), "megabyte_request_line".into())
            }
        }
        5 => {
            // NUL / control / non-ASCII bytes in head and body
            let mut o = b"POST /ctl HTTP/1.1\r\n".to_vec();
            o.extend_from_slice(idl.as_bytes());
            o.extend_from_slice(b"\r\nX-Ctl: a");
            o.push(*g.pick(&[0u8, 1, 7, 8, 11, 12, 27, 127, 128, 255]));
            o.extend_from_slice(b"b\r\nContent-Length: 6\r\n\r\n\x00\x01\xff\xfe\r\n");
            (o, "control_bytes".into())
        }
        6 => {
            // no line end at all, or bare LF line ends
            if g.chance(1, 2) {
                (vec![b'G'; *g.pick(&[5000usize, 200_000])], "no_line_end".into())
            } else {
                (format!("GET /lf HTTP/1.1\n{}\n\nGET /x HTTP/1.1\n\n", idl).into_bytes().repeat(*g.pick(&[1usize, 50])), "bare_lf".into())
            }
        }
        _ => {
            // chunk size line that never ends / negative-looking / empty
            let v = g.pick(&["", "-1", "0x10", " 5", "5 ", "zz", "+5"]).to_string();
            let mut body = format!("{}\r\nhello\r\n0\r\n\r\n", v).into_bytes();
            if g.chance(1, 3) {
                body = vec![b'1'; 100_000];
            }
            (line(&["POST /badchunk HTTP/1.1".into(), idl, "Transfer-Encoding: chunked".into()], &body), "bad_chunk_line".into())
        }
    }
}

impl Campaign for C14c {
    fn id(&self) -> &'static str {
        "C14"
    }
    fn rule(&self) -> &'static str {
        "seeded scenarios: hostile requests (Content-Length from 256 MiB to usize::MAX with only 0..3000 body bytes sent, chunk sizes up to and beyond 16 hex digits, 1000..8000 header fields, header lines and request lines of 0.1..2 MiB, NUL/control/non-ASCII bytes, missing or bare-LF line ends, malformed chunk-size lines, uninterrupted runs of 3000..8000 requests with a refused version or 750..2000 ordinary ones (answered one after the other) on one connection, with the 2 MiB thread stacks of std), optionally truncated at a random point, optionally after a good request, followed by the client closing or resetting; handlers read none / some / all of the body and then respond or drop, on the receiving thread or a handler thread. A counting global allocator records the largest single allocation request and the live-bytes peak of each run and refuses requests above 1 GiB (injected allocation failure => abort, seen by the orchestrator as a dead worker); a process-wide panic hook records the location of every panic. Non-trivial = the hostile request was delivered to the application or rejected after more than 4096 bytes; distinct = interleaving fingerprint"
    }
    fn runs(&self, tier: Tier) -> u64 {
        match tier {
            Tier::Quick => 25_000,
            Tier::Thorough => 800_000,
        }
    }
    fn crash_is_violation(&self) -> bool {
        true
    }
    fn extra_assumptions(&self) -> Vec<String> {
        vec!["'bounded in proportion to the bytes actually received' is read as: largest single allocation <= 4 x bytes sent + 16 MiB and live-heap growth <= 24 x bytes sent + 64 MiB (the harness' own copies of the scenario are included in the measurement); declared lengths in the generator start at 128 MiB".into()]
    }
    fn generate(&self, rng: &mut Rng, index: u64, _tier: Tier) -> Scenario {
        let mut sc = Scenario::new();
        let mut k = rng.sub("knobs");
        sc.knobs.strategy = strategy(&mut k);
        let mut g = rng.sub("scenario");
        let good_first = g.chance(1, 3);
        let mut msgs = vec![];
        if good_first {
            msgs.push(Req::get("c0r0").bytes());
            sc.programs.insert("c0r0".into(), Program::respond(200, token_body("c0r0", 10)));
        }
        let id = format!("c0r{}", msgs.len());
        let (mut bad, class) = hostile(&mut g, &id);
        if g.chance(1, 5) && bad.len() > 4 {
            let cut = g.usize(1, bad.len() - 1);
            bad.truncate(cut);
        }
        msgs.push(bad);
        // depth of recursion is only meaningful against the stack std gives a spawned thread
        sc.knobs.std_stack = class.ends_with("_flood");
        let body = match g.below(5) {
            0 | 1 => BodyPlan::None,
            2 => BodyPlan::Sizes(vec![*g.pick(&[1usize, 100, 5000])]),
            3 => BodyPlan::Touch(1),
            _ => BodyPlan::ToEof { buf: *g.pick(&[64usize, 8192]) },
        };
        let finish = if g.chance(1, 2) { Finish::Respond(RespSpec::simple(200, token_body(&id, 10))) } else { Finish::Drop };
        sc.programs.insert(id.clone(), Program { delay: 0, after: vec![], body: body.clone(), delay2: 0, finish: finish.clone() });
        sc.default_program = Program { delay: 0, after: vec![], body, delay2: 0, finish };
        let seg = *g.pick(&[Seg::Whole, Seg::Whole, Seg::Fixed(4096), Seg::Random(3), Seg::PerMessage, Seg::Fixed(1), Seg::Fixed(3), Seg::Fixed(61)]);
        let mut steps = segment(&msgs, seg, 0, &mut g);
        if index % 20 == 19 {
            // the client resets the connection before sending anything (possibly before it is accepted)
            steps.clear();
        }
        steps.push(match g.below(4) {
            0 => ClientStep::Reset,
            1 => ClientStep::Close { budget: *g.pick(&[0usize, 100, 100_000]), reset_err: g.chance(1, 2) },
            _ => ClientStep::HalfClose,
        });
        sc.conns.push(ConnScript { steps, coalesce: g.chance(1, 2), ..Default::default() });
        sc.conns.push(ConnScript { open_at: SEC, steps: vec![ClientStep::Send(B(Req::get("c1r0").bytes())), ClientStep::AwaitFinals(1)], ..Default::default() });
        sc.programs.insert("c1r0".into(), Program::respond(200, b"fresh".to_vec()));
        sc.receivers = loop_receivers(g.usize(1, 2), if g.chance(1, 2) { Dispatch::Spawn } else { Dispatch::Inline });
        if class == "request_flood" {
            // answered one after the other on the receiving thread: thousands of handler threads
            // all waiting for their turn to write would make the run quadratic in any
            // implementation that wakes all waiters, which is slow but not wrong
            sc.receivers = loop_receivers(1, Dispatch::Inline);
        }
        let class = if index % 20 == 19 { "nothing_sent".to_string() } else { class };
        sc.note = format!("C14 index {} class={} good_first={}", index, class, good_first);
        sc
    }
    fn check(&self, sc: &Scenario, out: &RunOut) -> Verdict {
        let mut v = Verdict::default();
        let class = sc.note.split("class=").nth(1).and_then(|s| s.split(' ').next()).unwrap_or("?").to_string();
        let sent: usize = sc.conns.iter().map(|c| sent_bytes(c).len()).sum();
        let lp = library_panics(out);
        if !lp.is_empty() {
            v.violations.push(Violation {
                clause: "C14.no_panic".into(),
                signature: format!("class {}", class),
                detail: format!("{}: a thread panicked outside the application's own code: {}", sc.note, lp.join("; ")),
            });
        }
        let single_bound = 4 * sent + (16 << 20);
        if out.max_alloc > single_bound {
            v.violations.push(Violation {
                clause: "C14.alloc_bound".into(),
                signature: format!("class {}", class),
                detail: format!("{}: a single allocation of {} bytes was requested while the clients sent only {} bytes in total (bound 4 x sent + 16 MiB = {})", sc.note, out.max_alloc, sent, single_bound),
            });
        }
        let live_bound = 24 * sent + (64 << 20);
        if out.peak_live > live_bound {
            v.violations.push(Violation {
                clause: "C14.alloc_bound".into(),
                signature: format!("class {} (live peak)", class),
                detail: format!("{}: live heap grew by {} bytes during the run while the clients sent {} bytes (bound {})", sc.note, out.peak_live, sent, live_bound),
            });
        }
        // the server is still alive and serving
        if !sc.conns[1].disabled {
            let fresh = crate::httpmodel::parse_responses(&out.obs.conns[1].received.0, &|_| false);
            if crate::httpmodel::finals(&fresh).is_empty() && out.report.outcome != simrt::Outcome::StepCap {
                v.violations.push(Violation {
                    clause: "C14.still_serving".into(),
                    signature: format!("class {}", class),
                    detail: format!("{}: a connection opened after the hostile one got no response. {}", sc.note, snap(out, "main").map(describe_blocked).unwrap_or_default()),
                });
            }
        }
        let delivered_bad = delivered(&out.obs).iter().any(|d| conn_of(&d.0) == Some(0) || d.0.starts_with('?'));
        v.nontrivial = delivered_bad || sent > 4096;
        v.tags.push(format!("class={}", class));
        v
    }
}
