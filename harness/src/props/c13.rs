//! C13 — behaviour depends on the bytes sent, not on how they were segmented.
//! C15 — a client vanishing at any point is contained.
//! Both enumerate fault positions over a fixed corpus of conversations.

use super::conv::{compare, Disc};
use super::gen::*;
use super::*;
use crate::engine::{run_scenario, Ev};
use std::collections::BTreeMap;
use std::sync::OnceLock;

pub struct C13c;
pub static C13: C13c = C13c;
pub struct C15c;
pub static C15: C15c = C15c;

#[derive(Clone)]
pub struct Conv {
    pub name: &'static str,
    pub msgs: Vec<Vec<u8>>,
    pub programs: BTreeMap<String, Program>,
    pub half_close: bool,
}

fn read_all(id: &str, status: u16, blen: usize) -> Program {
    Program {
        delay: 0,
        after: vec![],
        body: BodyPlan::ToEof { buf: 700 },
        delay2: 0,
        finish: Finish::Respond(RespSpec::simple(status, token_body(id, blen))),
    }
}

fn raw(lines: &[&str], body: &[u8]) -> Vec<u8> {
    let mut o = Vec::new();
    for l in lines {
        o.extend_from_slice(l.as_bytes());
        o.extend_from_slice(b"\r\n");
    }
    o.extend_from_slice(b"\r\n");
    o.extend_from_slice(body);
    o
}

pub fn corpus() -> &'static Vec<Conv> {
    static C: OnceLock<Vec<Conv>> = OnceLock::new();
    C.get_or_init(|| {
        let mut v: Vec<Conv> = Vec::new();
        let id = |r: usize| format!("c0r{}", r);
        let mut add = |name: &'static str, msgs: Vec<Vec<u8>>, progs: Vec<(usize, Program)>, half_close: bool| {
            let mut programs = BTreeMap::new();
            for r in 0..msgs.len() + 1 {
                programs.insert(id(r), Program::respond(200, token_body(&id(r), 10)));
            }
            for (r, p) in progs {
                programs.insert(id(r), p);
            }
            v.push(Conv { name, msgs, programs, half_close });
        };
        let get = |r: usize| Req::get(&id(r)).bytes();
        add("single GET", vec![get(0)], vec![], false);
        add("three pipelined GETs", vec![get(0), get(1), get(2)], vec![], false);
        add("POST 5 bytes, read", vec![Req::get(&id(0)).with_body(b"hello".to_vec()).bytes(), get(1)], vec![(0, read_all(&id(0), 200, 10))], false);
        add("POST 1024 bytes, read", vec![Req::get(&id(0)).with_body(token_body("q", 1024)).bytes(), get(1)], vec![(0, read_all(&id(0), 200, 10))], false);
        add("POST 1025 bytes, read", vec![Req::get(&id(0)).with_body(token_body("q", 1025)).bytes(), get(1)], vec![(0, read_all(&id(0), 200, 10))], false);
        add("POST 1500 bytes, unread", vec![Req::get(&id(0)).with_body(token_body("q", 1500)).bytes(), get(1)], vec![], false);
        add("POST 300 bytes, unread, dropped", vec![Req::get(&id(0)).with_body(token_body("q", 300)).bytes(), get(1)], vec![(0, Program { delay: 0, after: vec![], body: BodyPlan::None, delay2: 0, finish: Finish::Drop })], false);
        add("chunked small, read", vec![Req::get(&id(0)).with_chunked(b"hello chunked world", &[5, 1, 13]).bytes(), get(1)], vec![(0, read_all(&id(0), 200, 10))], false);
        add("chunked 1300 in 1/15/1024, read", vec![Req::get(&id(0)).with_chunked(&token_body("q", 1300), &[1, 15, 1024]).bytes(), get(1)], vec![(0, read_all(&id(0), 200, 10))], false);
        add("chunked 600, unread", vec![Req::get(&id(0)).with_chunked(&token_body("q", 600), &[100]).bytes(), get(1)], vec![], false);
        add("chunked with extensions and upper-case hex", vec![raw(&["POST /x HTTP/1.1", "X-Id: c0r0", "Transfer-Encoding: chunked"], b"A;ext=1\r\n0123456789\r\n00b\r\nabcdefghijk\r\n0\r\n\r\n"), get(1)], vec![(0, read_all(&id(0), 200, 10))], false);
        let mut head = Req::get(&id(0));
        head.method = "HEAD".into();
        add("HEAD then GET", vec![head.bytes(), get(1)], vec![(0, Program::respond(200, token_body("h", 50)))], false);
        let mut r10 = Req::get(&id(0));
        r10.version = "HTTP/1.0".into();
        add("HTTP/1.0 then bytes", vec![r10.bytes(), get(1)], vec![], false);
        let mut r10k = Req::get(&id(0)).header("Connection", "keep-alive");
        r10k.version = "HTTP/1.0".into();
        add("HTTP/1.0 keep-alive then GET", vec![r10k.bytes(), get(1)], vec![], false);
        add("Connection: close then bytes", vec![get(0), Req::get(&id(1)).header("Connection", "close").bytes(), get(2)], vec![], false);
        add("Expect 100-continue, body sent regardless", vec![Req::get(&id(0)).header("Expect", "100-continue").with_body(token_body("q", 40)).bytes(), get(1)], vec![(0, read_all(&id(0), 200, 10))], false);
        add("Expect 100-continue, not read", vec![Req::get(&id(0)).header("Expect", "100-continue").with_body(token_body("q", 40)).bytes(), get(1)], vec![], false);
        add("short request line after a good request", vec![get(0), raw(&["GET /only-two", "X-Id: c0r1"], b""), get(2)], vec![], false);
        add("unknown version token", vec![raw(&["GET / HTTP/1.2", "X-Id: c0r0"], b""), get(1)], vec![], false);
        add("HTTP/2.0 then GET", vec![raw(&["GET / HTTP/2.0", "X-Id: c0r0"], b""), get(1)], vec![], false);
        add("header without colon", vec![get(0), raw(&["GET / HTTP/1.1", "X-Id: c0r1", "NoColonHere"], b""), get(2)], vec![], false);
        add("non-ASCII header", vec![get(0), raw(&["GET / HTTP/1.1", "X-Id: c0r1", "X-Bad: caf\u{e9}"], b""), get(2)], vec![], false);
        add("unsupported Expect", vec![get(0), raw(&["POST / HTTP/1.1", "X-Id: c0r1", "Expect: 200-ok", "Content-Length: 0"], b""), get(2)], vec![], false);
        add("whitespace before colon", vec![raw(&["POST / HTTP/1.1", "X-Id: c0r0", "Content-Length : 5"], b"hello"), get(1)], vec![], false);
        add("line folding", vec![raw(&["GET / HTTP/1.1", "X-Id: c0r0", "X-A: 1", " folded: 2"], b""), get(1)], vec![], false);
        add("bad Content-Length", vec![raw(&["POST / HTTP/1.1", "X-Id: c0r0", "Content-Length: 5x"], b"hello"), get(1)], vec![], false);
        let long_val = "v".repeat(1500);
        add("head longer than the read buffer", vec![Req::get(&id(0)).header("X-Long", &long_val).bytes(), get(1)], vec![], false);
        let mut lt = Req::get(&id(0));
        lt.target = format!("/{}", "t".repeat(1100));
        add("target longer than the read buffer", vec![lt.bytes(), get(1)], vec![], false);
        add("mixed pipeline", vec![get(0), Req::get(&id(1)).with_body(token_body("q", 10)).bytes(), Req::get(&id(2)).with_chunked(b"abcdefghij", &[3]).bytes(), get(3)], vec![(1, read_all(&id(1), 201, 10)), (2, read_all(&id(2), 202, 10))], false);
        add("Content-Length and Transfer-Encoding", vec![raw(&["POST / HTTP/1.1", "X-Id: c0r0", "Content-Length: 3", "Transfer-Encoding: chunked"], b"5\r\nhello\r\n0\r\n\r\n"), get(1)], vec![(0, read_all(&id(0), 200, 10))], false);
        let mut big = RespSpec::simple(200, token_body("big", 9000));
        big.ctor = Ctor::New;
        big.declared = None;
        big.pieces = vec![1000];
        add("chunked response of 9000 bytes", vec![get(0), get(1)], vec![(0, Program { delay: 0, after: vec![], body: BodyPlan::None, delay2: 0, finish: Finish::Respond(big) })], false);
        add("identity response of 5000 bytes", vec![get(0), get(1)], vec![(0, Program::respond(200, token_body("idn", 5000)))], false);
        add("handler drops the request", vec![get(0), get(1)], vec![(0, Program { delay: 0, after: vec![], body: BodyPlan::None, delay2: 0, finish: Finish::Drop })], false);
        add("handler uses the raw writer", vec![get(0), get(1)], vec![(0, Program { delay: 0, after: vec![], body: BodyPlan::None, delay2: 0, finish: Finish::Writer { parts: vec![B(literal_response(200, b"raw body"))], flush: true } })], false);
        add("upgrade request with bytes behind, client half-closes", vec![Req::get(&id(0)).header("Connection", "upgrade").header("Upgrade", "sim").bytes(), b"opaque bytes after the upgrade request".to_vec()], vec![(0, read_all(&id(0), 200, 10))], true);
        add("two requests then client half-closes", vec![get(0), get(1)], vec![], true);
        add("POST 2000 bytes partially read", vec![Req::get(&id(0)).with_body(token_body("q", 2000)).bytes(), get(1)], vec![(0, Program { delay: 0, after: vec![], body: BodyPlan::Sizes(vec![100, 50]), delay2: 0, finish: Finish::Respond(RespSpec::simple(200, token_body(&id(0), 10))) })], false);
        add("lower-case header names", vec![raw(&["POST /lc HTTP/1.1", "x-id: c0r0", "content-length: 4"], b"body"), get(1)], vec![(0, read_all(&id(0), 200, 10))], false);
        add("empty header value and colons", vec![Req::get(&id(0)).header("X-Empty", "").header("X-Colons", "a:b::c").bytes(), get(1)], vec![], false);
        v
    })
}

fn base_scenario(cv: &Conv, index_seed: &mut Rng) -> Scenario {
    let mut sc = Scenario::new();
    sc.knobs.strategy = strategy(index_seed);
    sc.programs = cv.programs.clone();
    sc.receivers = loop_receivers(1, Dispatch::Inline);
    sc
}

#[derive(Clone, Debug)]
enum Cut {
    Whole,
    Single(usize),
    EveryByte,
    Random(u64),
}

fn c13_variants(len: usize, thorough: bool) -> Vec<(Cut, bool)> {
    let mut v = vec![(Cut::Whole, false)];
    for k in 1..len {
        v.push((Cut::Single(k), false));
        v.push((Cut::Single(k), true));
    }
    v.push((Cut::EveryByte, false));
    v.push((Cut::EveryByte, true));
    let n = if thorough { 1000 } else { 20 };
    for r in 0..n {
        v.push((Cut::Random(r), r % 2 == 1));
    }
    v
}

fn c13_index(index: u64, thorough: bool) -> (usize, Cut, bool, u64) {
    // thorough: several schedule samples per cut
    let reps = if thorough { 30 } else { 1 };
    let mut i = index;
    for (ci, cv) in corpus().iter().enumerate() {
        let len: usize = cv.msgs.iter().map(|m| m.len()).sum();
        let vars = c13_variants(len, thorough);
        let n = vars.len() as u64 * reps;
        if i < n {
            let (c, p) = vars[(i / reps) as usize].clone();
            return (ci, c, p, i % reps);
        }
        i -= n;
    }
    (0, Cut::Whole, false, 0)
}

fn c13_total(thorough: bool) -> u64 {
    let reps = if thorough { 30 } else { 1 };
    corpus()
        .iter()
        .map(|cv| c13_variants(cv.msgs.iter().map(|m| m.len()).sum(), thorough).len() as u64 * reps)
        .sum()
}

/// What must be the same for every segmentation of the same bytes.
#[derive(Clone, Debug, PartialEq)]
struct Behaviour {
    delivered: Vec<(String, crate::engine::HeadObs, Option<Vec<u8>>)>,
    wire: Vec<u8>,
    fin: bool,
}

fn mask_dates(b: &[u8]) -> Vec<u8> {
    let mut o = b.to_vec();
    let pat = b"\r\nDate: ";
    let mut i = 0;
    while i + pat.len() < o.len() {
        if &o[i..i + pat.len()] == pat {
            let s = i + pat.len();
            let mut e = s;
            while e < o.len() && o[e] != b'\r' {
                o[e] = b'#';
                e += 1;
            }
            i = e;
        } else {
            i += 1;
        }
    }
    o
}

fn behaviour(out: &RunOut) -> Behaviour {
    let main = out.obs.snaps.get("main");
    let mseq = main.map(|m| m.seq).unwrap_or(u64::MAX);
    let mut delivered = vec![];
    for e in &out.obs.events {
        if let Ev::Delivered { id, head, seq, .. } = e {
            if *seq <= mseq {
                let mut h = head.clone();
                h.remote_addr = None;
                // only bodies read to their end are comparable: a fixed number of reads
                // legitimately returns fewer bytes when the data arrives in smaller segments
                let body = out.obs.events.iter().find_map(|b| match b {
                    Ev::BodyRead { id: i, data, eof: true, .. } if i == id => Some(data.0.clone()),
                    _ => None,
                });
                delivered.push((id.clone(), h, body));
            }
        }
    }
    let len = main.and_then(|m| m.conns.first()).map(|c| c.received_len).unwrap_or(0);
    let rec = &out.obs.conns[0].received.0;
    Behaviour {
        delivered,
        wire: mask_dates(&rec[..len.min(rec.len())]),
        fin: main.and_then(|m| m.conns.first()).map(|c| c.server_fin).unwrap_or(false),
    }
}

thread_local! {
    static BASELINES: std::cell::RefCell<BTreeMap<usize, Behaviour>> = const { std::cell::RefCell::new(BTreeMap::new()) };
}

fn baseline(ci: usize) -> Behaviour {
    if let Some(b) = BASELINES.with(|m| m.borrow().get(&ci).cloned()) {
        return b;
    }
    let cv = &corpus()[ci];
    let mut sc = Scenario::new();
    sc.programs = cv.programs.clone();
    sc.receivers = loop_receivers(1, Dispatch::Inline);
    let all: Vec<u8> = cv.msgs.concat();
    let mut steps = vec![ClientStep::Send(B(all))];
    if cv.half_close {
        steps.push(ClientStep::HalfClose);
    }
    sc.conns.push(ConnScript { steps, ..Default::default() });
    let out = run_scenario(&sc, 0xBA5E_u64 + ci as u64, None, false, false);
    let b = behaviour(&out);
    BASELINES.with(|m| m.borrow_mut().insert(ci, b.clone()));
    b
}

impl Campaign for C13c {
    fn id(&self) -> &'static str {
        "C13"
    }
    fn level(&self) -> &'static str {
        "fault_enumeration"
    }
    fn rule(&self) -> &'static str {
        "fault = segmentation. For each of the corpus conversations (all framing kinds, pipelines, every error class, 100-continue, long heads, large responses): the unsplit delivery, EVERY single split point with and without a virtual pause, one-byte-at-a-time with and without pauses, and 20 (thorough: 1000) random multi-way splits; each read returns exactly one segment; schedules are sampled (thorough: 30 per cut). The quick tier enumerates the single-cut space of the corpus completely. Non-trivial = the delivery is split at least once; distinct = (conversation, cut set, pause, schedule) fingerprint"
    }
    fn runs(&self, tier: Tier) -> u64 {
        c13_total(tier == Tier::Thorough)
    }
    fn exhaustive(&self) -> bool {
        true
    }
    fn generate(&self, rng: &mut Rng, index: u64, tier: Tier) -> Scenario {
        let (ci, cut, pause, _rep) = c13_index(index, tier == Tier::Thorough);
        let cv = &corpus()[ci];
        let mut k = rng.sub("knobs");
        let mut sc = base_scenario(cv, &mut k);
        let all: Vec<u8> = cv.msgs.concat();
        let mut g = rng.sub("cuts");
        let cuts: Vec<usize> = match cut {
            Cut::Whole => vec![],
            Cut::Single(k) => vec![k],
            Cut::EveryByte => (1..all.len()).collect(),
            Cut::Random(_) => {
                let n = g.usize(2, 12);
                let mut c: Vec<usize> = (0..n).map(|_| g.usize(1, all.len() - 1)).collect();
                c.sort();
                c.dedup();
                c
            }
        };
        let p = if pause { *g.pick(&[100_000u64, MS, 20 * MS]) } else { 0 };
        let mut steps = steps_from_cuts(&all, &cuts, p);
        if cv.half_close {
            steps.push(ClientStep::HalfClose);
        }
        sc.conns.push(ConnScript { steps, coalesce: false, ..Default::default() });
        sc.note = format!("C13 index {} conv#{} '{}' cuts={:?} pause={}", index, ci, cv.name, if cuts.len() > 12 { vec![cuts.len()] } else { cuts.clone() }, p);
        sc
    }
    fn check(&self, sc: &Scenario, out: &RunOut) -> Verdict {
        let mut v = Verdict::default();
        let ci: usize = sc.note.split("conv#").nth(1).and_then(|s| s.split(' ').next()).and_then(|s| s.parse().ok()).unwrap_or(0);
        let base = baseline(ci);
        let got = behaviour(out);
        if got != base {
            let what = if got.delivered.len() != base.delivered.len() {
                format!("{} requests delivered, {} in the unsplit run", got.delivered.len(), base.delivered.len())
            } else if got.delivered != base.delivered {
                let k = got.delivered.iter().zip(base.delivered.iter()).position(|(a, b)| a != b).unwrap_or(0);
                format!("delivered request #{} differs: {:?} vs unsplit {:?}", k, got.delivered[k].0, base.delivered[k].0)
            } else if got.wire != base.wire {
                let k = got.wire.iter().zip(base.wire.iter()).take_while(|(a, b)| a == b).count();
                format!("response stream differs from the unsplit run at byte {} ({} vs {} bytes): ...{:?} vs ...{:?}", k, got.wire.len(), base.wire.len(), esc(&got.wire[k.saturating_sub(20)..(k + 40).min(got.wire.len())]), esc(&base.wire[k.saturating_sub(20)..(k + 40).min(base.wire.len())]))
            } else {
                format!("end-of-stream differs: {} vs unsplit {}", got.fin, base.fin)
            };
            let main = snap(out, "main").unwrap();
            v.violations.push(Violation {
                clause: "C13.same_behaviour".into(),
                signature: format!("conversation '{}'", corpus()[ci].name),
                detail: format!("{}: {}. blocked: {}", sc.note, what, describe_blocked(main)),
            });
        }
        v.nontrivial = sc.conns[0].steps.iter().filter(|s| matches!(s, ClientStep::Send(_))).count() > 1;
        v.tags.push(format!("conv={}", ci));
        v
    }
}

// ---------------------------------------------------------------------------

#[derive(Clone, Copy, Debug, PartialEq)]
enum Vanish {
    HalfClose,
    Close,
    Reset,
}

/// part A: (conversation, prefix length, kind); part B: response-side vanishing
fn c15_index(index: u64, thorough: bool) -> (usize, usize, Vanish, u64, bool) {
    let reps = if thorough { 30 } else { 1 };
    let mut i = index;
    for (ci, cv) in corpus().iter().enumerate() {
        let len: usize = cv.msgs.iter().map(|m| m.len()).sum();
        let n = (len as u64 + 1) * 3 * reps;
        if i < n {
            let j = i / reps;
            let k = (j / 3) as usize;
            let kind = [Vanish::HalfClose, Vanish::Close, Vanish::Reset][(j % 3) as usize];
            return (ci, k, kind, i % reps, false);
        }
        i -= n;
    }
    // part B
    (i as usize, 0, Vanish::Close, 0, true)
}

const C15_B: u64 = 6000;

fn c15_total(thorough: bool) -> u64 {
    let reps = if thorough { 30 } else { 1 };
    corpus()
        .iter()
        .map(|cv| (cv.msgs.iter().map(|m| m.len()).sum::<usize>() as u64 + 1) * 3 * reps)
        .sum::<u64>()
        + if thorough { C15_B * 100 } else { C15_B }
}

impl Campaign for C15c {
    fn id(&self) -> &'static str {
        "C15"
    }
    fn level(&self) -> &'static str {
        "fault_enumeration"
    }
    fn rule(&self) -> &'static str {
        "fault = the client vanishing. Part A: for each corpus conversation EVERY prefix length k in 0..=len of the client's byte stream, followed by half-close, full close (server writes then succeed for a seeded number of bytes before failing with BrokenPipe/ConnectionReset) or reset; a second connection opened afterwards must be served. Part B: response-heavy conversations (identity 40000 / chunked 9000 / small) with the client gone before the response, after m received bytes, or not reading behind a small send window and then gone. Schedules and post-close write budgets are sampled (thorough: 30 per cut point). The quick tier enumerates the (conversation, prefix, kind) space completely. Non-trivial = the cut falls strictly inside the conversation (0 < k < len) or the client leaves while a response is in flight; distinct = (conversation, cut, kind, schedule) fingerprint"
    }
    fn runs(&self, tier: Tier) -> u64 {
        c15_total(tier == Tier::Thorough)
    }
    fn exhaustive(&self) -> bool {
        true
    }
    fn generate(&self, rng: &mut Rng, index: u64, tier: Tier) -> Scenario {
        let (ci, k, kind, _rep, part_b) = c15_index(index, tier == Tier::Thorough);
        let mut kn = rng.sub("knobs");
        let mut g = rng.sub("scenario");
        if part_b {
            let mut sc = Scenario::new();
            sc.knobs.strategy = strategy(&mut kn);
            let n = g.usize(1, 2);
            let mut msgs = vec![];
            for r in 0..n {
                let id = format!("c0r{}", r);
                msgs.push(Req::get(&id).bytes());
                let mut spec = RespSpec::simple(200, token_body(&id, *g.pick(&[10usize, 3000, 40000])));
                if g.chance(1, 3) {
                    spec.ctor = Ctor::New;
                    spec.declared = None;
                    spec.body = B(token_body(&id, 9000));
                    spec.pieces = vec![*g.pick(&[100usize, 5000])];
                }
                let mut p = Program { delay: *g.pick(&[0u64, MS, 10 * MS]), after: vec![], body: BodyPlan::None, delay2: 0, finish: Finish::Respond(spec) };
                if g.chance(1, 8) {
                    p.finish = Finish::Drop;
                }
                sc.programs.insert(id, p);
            }
            let mut steps = vec![ClientStep::Send(B(msgs.concat()))];
            let window = if g.chance(1, 2) { Some(*g.pick(&[64usize, 1000, 4096])) } else { None };
            let mut m = *g.pick(&[0usize, 1, 17, 100, 1024, 1025, 5000, 20000]);
            if let Some(w) = window {
                // a client that does not read can never have more than the window in flight
                m = m.min(w);
            }
            if m > 0 {
                steps.push(ClientStep::AwaitLen(m));
            }
            if m == 0 || window.is_some() || g.chance(1, 3) {
                steps.push(ClientStep::Pause(*g.pick(&[MS / 2, 5 * MS, 20 * MS])));
            }
            let kind = *g.pick(&[Vanish::Close, Vanish::Close, Vanish::Reset]);
            steps.push(match kind {
                Vanish::Reset => ClientStep::Reset,
                _ => ClientStep::Close { budget: *g.pick(&[0usize, 1, 100, 2000, 100_000]), reset_err: g.chance(1, 2) },
            });
            let mut c = ConnScript { steps, ..Default::default() };
            // no drain thread: the client does not read
            c.window = window;
            if g.chance(1, 3) {
                c.short_writes = Some(*g.pick(&[7usize, 500]));
            }
            sc.conns.push(c);
            sc.conns.push(ConnScript { open_at: SEC, steps: vec![ClientStep::Send(B(Req::get("c1r0").bytes())), ClientStep::AwaitFinals(1)], ..Default::default() });
            sc.programs.insert("c1r0".into(), Program::respond(200, b"fresh".to_vec()));
            sc.receivers = loop_receivers(g.usize(1, 2), if g.chance(1, 2) { Dispatch::Spawn } else { Dispatch::Inline });
            sc.note = format!("C15 index {} part B m={} kind={:?}", index, m, kind);
            return sc;
        }
        let cv = &corpus()[ci];
        let mut sc = base_scenario(cv, &mut kn);
        let all: Vec<u8> = cv.msgs.concat();
        let prefix = all[..k.min(all.len())].to_vec();
        let mut steps = vec![];
        if !prefix.is_empty() {
            // deliver the prefix in one or two segments
            if prefix.len() > 1 && g.chance(1, 3) {
                let c = g.usize(1, prefix.len() - 1);
                steps.push(ClientStep::Send(B(prefix[..c].to_vec())));
                steps.push(ClientStep::Send(B(prefix[c..].to_vec())));
            } else {
                steps.push(ClientStep::Send(B(prefix)));
            }
        }
        if g.chance(1, 3) {
            steps.push(ClientStep::Pause(*g.pick(&[MS / 2, 5 * MS])));
        }
        steps.push(match kind {
            Vanish::HalfClose => ClientStep::HalfClose,
            Vanish::Close => ClientStep::Close { budget: *g.pick(&[0usize, 1, 50, 500, 100_000]), reset_err: g.chance(1, 2) },
            Vanish::Reset => ClientStep::Reset,
        });
        sc.conns.push(ConnScript { steps, ..Default::default() });
        // afterwards a fresh connection must be served
        sc.conns.push(ConnScript { open_at: SEC, steps: vec![ClientStep::Send(B(Req::get("c1r0").bytes())), ClientStep::AwaitFinals(1)], ..Default::default() });
        sc.programs.insert("c1r0".into(), Program::respond(200, b"fresh".to_vec()));
        sc.note = format!("C15 index {} conv#{} '{}' prefix={}/{} kind={:?}", index, ci, cv.name, k, all.len(), kind);
        sc
    }
    fn check(&self, sc: &Scenario, out: &RunOut) -> Verdict {
        let mut v = Verdict::default();
        let main = snap(out, "main").unwrap();
        let part_b = sc.note.contains("part B");
        let kind = if sc.note.contains("HalfClose") { Vanish::HalfClose } else if sc.note.contains("Reset") { Vanish::Reset } else { Vanish::Close };
        let sig_kind = format!("{:?}{}", kind, if part_b { " (response in flight)" } else { "" });
        let push = |v: &mut Verdict, clause: &str, text: String| {
            v.violations.push(Violation {
                clause: clause.into(),
                signature: sig_kind.clone(),
                detail: format!("{}: {}. blocked: {}", sc.note, text, describe_blocked(main)),
            });
        };
        // library panics
        let lp = library_panics(out);
        if !lp.is_empty() {
            push(&mut v, "C15.no_panic", format!("a thread panicked inside the library: {}", lp[0]));
        }
        // nobody may hang in the library on behalf of the vanished client
        let stuck: Vec<_> = main
            .threads
            .iter()
            .filter(|t| (t.0 == "handler" || t.0 == "receiver") && (t.1.contains("NetRead") || t.1.contains("NetWrite") || t.1.contains("Recv(")))
            .collect();
        if !stuck.is_empty() {
            push(&mut v, "C15.no_hang", format!("application thread(s) still blocked in a body read or in answering after the client vanished: {:?}", stuck));
        }
        // answering returns success
        for e in &out.obs.events {
            if let Ev::FinishEnd { id, ok, err, kind: fk, .. } = e {
                if !*ok && conn_of(id) == Some(0) && fk == "respond" {
                    push(&mut v, "C15.respond_ok", format!("respond() for {} returned an error ({:?}) although the client had merely vanished", id, err));
                    break;
                }
            }
        }
        // the server keeps serving
        let fresh = crate::httpmodel::parse_responses(&out.obs.conns[1].received.0, &|_| false);
        if !sc.conns[1].disabled && crate::httpmodel::finals(&fresh).is_empty() {
            push(&mut v, "C15.keeps_serving", "a connection opened after the client vanished got no response".to_string());
        }
        if !part_b {
            let (e, discs) = compare(sc, out, 0);
            let deliv: Vec<String> = delivered(&out.obs).into_iter().filter(|d| d.2 <= main.seq && conn_of(&d.0) == Some(0)).map(|d| d.0).collect();
            for d in discs {
                match (&d, kind) {
                    (Disc::Forbidden(id), _) | (Disc::Phantom(id), _) => {
                        push(&mut v, "C15.incomplete_not_delivered", format!("{} was delivered although its head or buffered body is incomplete in the prefix (or it lies behind the cut)", id));
                        break;
                    }
                    (Disc::NotDelivered(id), Vanish::HalfClose) | (Disc::NotDelivered(id), Vanish::Close) => {
                        push(&mut v, "C15.complete_delivered", format!("request {} is complete in the prefix and the client closed in an orderly way, but it was never delivered", id));
                        break;
                    }
                    (Disc::MissingResponse { k, want, .. }, Vanish::HalfClose) => {
                        push(&mut v, "C15.complete_answered", format!("response #{} (status {}) never reached the half-closed client", k, want));
                        break;
                    }
                    (Disc::WrongResponse { k, got, want, .. }, Vanish::HalfClose) => {
                        push(&mut v, "C15.complete_answered", format!("response #{} has status {} instead of {}", k, got, want));
                        break;
                    }
                    (Disc::MissingEof, Vanish::HalfClose) => {
                        push(&mut v, "C15.closes", "the server did not close after answering the half-closed client".to_string());
                        break;
                    }
                    _ => {}
                }
            }
            if kind == Vanish::Reset {
                // delivered must be a prefix of the complete ones
                if !e.delivered.starts_with(&deliv) && deliv.iter().all(|d| !d.starts_with('?')) {
                    push(&mut v, "C15.reset_prefix", format!("after a reset the delivered requests {:?} are not a prefix of the complete ones {:?}", deliv, e.delivered));
                }
            }
            let k: usize = sc.note.split("prefix=").nth(1).and_then(|s| s.split('/').next()).and_then(|s| s.parse().ok()).unwrap_or(0);
            let len: usize = sc.note.split("prefix=").nth(1).and_then(|s| s.split('/').nth(1)).and_then(|s| s.split(' ').next()).and_then(|s| s.parse().ok()).unwrap_or(0);
            v.nontrivial = k > 0 && k < len;
        } else {
            v.nontrivial = true;
        }
        v.tags.push(format!("kind={:?}", kind));
        v.tags.push(if part_b { "part=B".into() } else { "part=A".into() });
        v
    }
}


/// JSON dump of the corpus (bytes, programs, half-close) together with what the simulated
/// server did for the unsplit delivery: used by the real-socket cross-check of the transport stub.
pub fn dump_corpus() -> serde_json::Value {
    let mut out = vec![];
    for (ci, cv) in corpus().iter().enumerate() {
        let b = baseline(ci);
        out.push(serde_json::json!({
            "index": ci,
            "name": cv.name,
            "bytes": B(cv.msgs.concat()),
            "half_close": cv.half_close,
            "programs": cv.programs,
            "sim": {
                "delivered": b.delivered.iter().map(|d| serde_json::json!({
                    "id": d.0, "method": d.1.method, "url": d.1.url, "version": [d.1.version.0, d.1.version.1],
                    "headers": d.1.headers, "body_length": d.1.body_length, "body": d.2.as_ref().map(|x| B(x.clone()))})).collect::<Vec<_>>(),
                "wire": B(b.wire.clone()),
                "fin": b.fin,
            }
        }));
    }
    serde_json::Value::Array(out)
}
