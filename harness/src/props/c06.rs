//! C06 — exactly one final response per delivered request; a dropped request gets a 500.

use super::c01::{expect_of, Expect};
use super::gen::*;
use super::*;
use crate::httpmodel::finals;

pub struct C06c;
pub static C06: C06c = C06c;

fn gen_finish(g: &mut Rng, id: &str, last: bool, allow_panic: bool) -> Finish {
    match g.below(13) {
        12 => {
            // the body source reports an error after it has delivered the complete declared body:
            // respond() fails, but the response is complete and must stay the only one
            let len = *g.pick(&[1usize, 10, 1500, 9000]);
            let mut spec = RespSpec::simple(200, token_body(id, len));
            spec.ctor = Ctor::New;
            spec.declared = Some(len);
            spec.pieces = vec![*g.pick(&[1usize, 100, 8192])];
            spec.fail_at_end = true;
            Finish::Respond(spec)
        }
        0..=3 => Finish::Respond(RespSpec::simple(
            *g.pick(&[200u16, 201, 404, 503]),
            token_body(id, *g.pick(&[0usize, 10, 1500, 9000])),
        )),
        4..=5 => {
            let lit = literal_response(200, &token_body(id, *g.pick(&[0usize, 10, 2000])));
            let parts = g.usize(1, 3);
            Finish::Writer {
                parts: split_parts(&lit, parts, g),
                flush: true,
            }
        }
        6..=8 => Finish::Drop,
        9 if allow_panic => Finish::Panic,
        10 if last => Finish::Upgrade {
            // one upgrade in three names a protocol that is not ASCII: `upgrade` panics before it has
            // written anything (an application error), the request dies with the handler thread
            proto: if allow_panic && g.chance(1, 3) { "w\u{e9}bsocket".into() } else { "sim-proto".into() },
            resp: RespSpec::simple(101, vec![]),
            ops: vec![
                StreamOp::Write(B(format!("<<raw {}>>", id).into_bytes())),
                StreamOp::Flush,
            ],
        },
        _ => Finish::Drop,
    }
}

impl Campaign for C06c {
    fn id(&self) -> &'static str {
        "C06"
    }
    fn rule(&self) -> &'static str {
        "seeded scenarios: 1-2 connections with 1..5 pipelined requests (no body / buffered / streamed Content-Length bodies read none, partly or fully), each finished by respond / raw writer / upgrade (last only; one in three with a protocol name on which `upgrade` itself panics) / drop / handler panic, on handler threads or on the receiving thread, any order; one run in eight ends with a streamed body the client holds back until answered, one in eight with a streamed body cut short by the client closing its sending side; one in five is a mixed-feature conversation; non-trivial = at least one request was dropped or its handler panicked while another request of the same connection was outstanding; distinct = interleaving fingerprint"
    }
    fn runs(&self, tier: Tier) -> u64 {
        match tier {
            Tier::Quick => 100_000,
            Tier::Thorough => 3_000_000,
        }
    }
    fn generate(&self, rng: &mut Rng, index: u64, _tier: Tier) -> Scenario {
        if index % 5 == 4 {
            return super::universal::gen_universal(rng, index, false);
        }
        let mut sc = Scenario::new();
        let mut k = rng.sub("knobs");
        sc.knobs.strategy = strategy(&mut k);
        sc.knobs.spurious = k.chance(1, 8);
        let mut g = rng.sub("scenario");
        let nconn = if g.chance(1, 4) { 2 } else { 1 };
        let spawn = g.chance(3, 4);
        for ci in 0..nconn {
            let n = g.usize(1, 5);
            let mut msgs = vec![];
            for r in 0..n {
                let id = format!("c{}r{}", ci, r);
                let last = r == n - 1;
                let mut rq = Req::get(&id);
                let blen = *g.pick(&[0usize, 0, 5, 1024, 1025, 3000]);
                if blen > 0 {
                    rq = rq.with_body(token_body(&format!("q{}", id), blen));
                }
                let finish = gen_finish(&mut g, &id, last, spawn);
                if let Finish::Upgrade { .. } = finish {
                    rq = rq.header("Connection", "upgrade").header("Upgrade", "sim-proto");
                    // body of an upgrade request is the rest of the stream: keep it empty
                    rq.body.clear();
                    rq.headers.retain(|h| h.0 != "Content-Length");
                    rq.method = "GET".into();
                }
                let body = if blen == 0 {
                    BodyPlan::None
                } else {
                    match g.below(4) {
                        0 => BodyPlan::None,
                        1 => BodyPlan::Sizes(vec![g.usize(1, blen)]),
                        2 => BodyPlan::ToEof { buf: *g.pick(&[1usize, 100, 4096]) },
                        _ => BodyPlan::Touch(1),
                    }
                };
                let body = if matches!(finish, Finish::Upgrade { .. }) { BodyPlan::None } else { body };
                sc.programs.insert(
                    id,
                    Program {
                        delay: if spawn { *g.pick(&[0u64, 0, MS, 3 * MS]) } else { 0 },
                        after: vec![],
                        body,
                        delay2: 0,
                        finish,
                    },
                );
                let is_upgrade = rq.headers.iter().any(|h| h.0 == "Upgrade");
                msgs.push(if is_upgrade { rq.bytes() } else { spice(&mut g, rq, true, false).bytes() });
            }
            let seg = *g.pick(&[Seg::Whole, Seg::PerMessage, Seg::Random(3)]);
            let mut c = ConnScript {
                steps: segment(&msgs, seg, *g.pick(&[0u64, MS]), &mut g),
                ..Default::default()
            };
            if index % 8 == 3 && ci == 0 {
                // the last request carries a streamed body (Content-Length or chunked, optionally
                // expecting 100-continue) of which the client sends only the beginning; it sends the
                // rest once it has all final responses. The handler answers or drops without reading.
                let r = n;
                let id = format!("c{}r{}", ci, r);
                let mut rq = Req::get(&id);
                rq.method = "POST".into();
                let payload = token_body(&format!("q{}", id), 3000);
                if g.chance(1, 3) {
                    rq.headers.push(("Expect".into(), "100-continue".into()));
                }
                let chunked = g.chance(1, 3);
                if chunked {
                    rq.headers.push(("Transfer-Encoding".into(), "chunked".into()));
                    rq.body = chunk_encode(&payload, &[700]);
                } else {
                    rq.headers.push(("Content-Length".into(), payload.len().to_string()));
                    rq.body = payload;
                }
                let all = rq.bytes();
                let head_len = all.len() - rq.body.len();
                let cut = head_len + *g.pick(&[0usize, 1, 1500]);
                c.steps.push(ClientStep::Send(B(all[..cut].to_vec())));
                c.steps.push(ClientStep::AwaitFinals(n + 1));
                c.steps.push(ClientStep::Send(B(all[cut..].to_vec())));
                let finish = if g.chance(1, 2) { Finish::Drop } else { Finish::Respond(RespSpec::simple(200, token_body(&id, 10))) };
                sc.programs.insert(id, Program { delay: 0, after: vec![], body: BodyPlan::None, delay2: 0, finish });
            }
            if index % 8 == 7 && ci == 0 {
                // the last request announces a streamed body of which the client sends only a part
                // before it closes its sending side (it keeps reading): the handler, whatever it does
                // with the truncated body, still owes exactly one response
                let id = format!("c{}r{}", ci, n);
                let total = *g.pick(&[1025usize, 3000, 20000]);
                let rq = Req::get(&id).with_body(token_body(&format!("q{}", id), total));
                let all = rq.bytes();
                let keep = all.len() - total + g.usize(0, total - 1);
                c.steps.push(ClientStep::Send(B(all[..keep].to_vec())));
                c.steps.push(ClientStep::HalfClose);
                let body = match g.below(4) {
                    0 => BodyPlan::None,
                    1 => BodyPlan::Sizes(vec![g.usize(1, total)]),
                    2 => BodyPlan::ToEof { buf: *g.pick(&[1usize, 100, 4096]) },
                    _ => BodyPlan::Touch(1),
                };
                let finish = match g.below(3) {
                    0 => Finish::Drop,
                    1 => Finish::Writer { parts: vec![B(literal_response(200, &token_body(&id, 10)))], flush: true },
                    _ => Finish::Respond(RespSpec::simple(200, token_body(&id, 10))),
                };
                sc.programs.insert(id, Program { delay: 0, after: vec![], body, delay2: 0, finish });
            }
            c.coalesce = g.chance(1, 2);
            if g.chance(1, 4) {
                c.short_writes = Some(*g.pick(&[3usize, 200]));
            }
            sc.conns.push(c);
        }
        sc.receivers = if spawn {
            loop_receivers(g.usize(1, 3), Dispatch::Spawn)
        } else {
            loop_receivers(1, Dispatch::Inline)
        };
        sc.note = format!("C06 index {}", index);
        if index % 16 == 7 {
            // one thread holds a request of each of two connections and panics while handling the
            // first: unwinding drops the other one too; both connections must get a 500
            let mut sc2 = Scenario::new();
            sc2.knobs = sc.knobs.clone();
            for ci in 0..2 {
                let id = format!("c{}r0", ci);
                sc2.conns.push(ConnScript { steps: vec![ClientStep::Send(B(Req::get(&id).bytes()))], ..Default::default() });
                let finish = if ci == 0 || g.chance(1, 2) { Finish::Panic } else { Finish::Respond(RespSpec::simple(200, token_body(&id, 10))) };
                sc2.programs.insert(id, Program { delay: 0, after: vec![], body: BodyPlan::None, delay2: 0, finish });
            }
            sc2.receivers = vec![Receiver { start_at: 0, calls: vec![RecvCall::Recv, RecvCall::Recv], dispatch: Dispatch::Hold(2) }];
            sc2.note = format!("C06 index {} panic-while-holding-two", index);
            return sc2;
        }
        sc
    }

    fn check(&self, sc: &Scenario, out: &RunOut) -> Verdict {
        if sc.note.starts_with("universal") {
            return super::universal::universal_verdict("C06", sc, out);
        }
        let mut v = Verdict::default();
        let deliv = delivered(&out.obs);
        let main = match snap(out, "main") {
            Some(s) => s,
            None => {
                v.inconclusive = Some("no main snapshot".into());
                return v;
            }
        };
        for ci in 0..sc.conns.len() {
            let reqs = conn_requests(sc, ci);
            let co = &out.obs.conns[ci];
            // delivered requests of this connection, in wire order
            let handed: Vec<String> = out
                .obs
                .events
                .iter()
                .filter_map(|e| match e {
                    crate::engine::Ev::RecvCall { res: crate::engine::RecvRes::Got(id), .. } => Some(id.clone()),
                    _ => None,
                })
                .collect();
            let mine: Vec<&crate::httpmodel::ReqMsg> = reqs
                .iter()
                .filter(|r| deliv.iter().any(|d| Some(&d.0) == r.id.as_ref()) || r.id.as_ref().map(|i| handed.contains(i)).unwrap_or(false))
                .collect();
            let holder_panicked = out.report.panics.iter().any(|p| p.thread_name.as_deref() == Some("receiver"));
            let never_started = |id: &str| !out.obs.events.iter().any(|e| matches!(e, crate::engine::Ev::FinishStart { id: i, .. } if i == id));
            // duplicates are C07's business; here every delivered request owes one final response
            let exp: Vec<(String, Expect, bool)> = mine
                .iter()
                .map(|r| {
                    let id = r.id.clone().unwrap();
                    let p = sc.programs.get(&id).unwrap_or(&sc.default_program);
                    if holder_panicked && never_started(&id) {
                        // dropped by the unwinding of the thread that held it
                        return (id, Expect::Msg(500, vec![]), r.is_head);
                    }
                    (id, expect_of(p, r.is_head), r.is_head)
                })
                .collect();
            let heads: Vec<bool> = exp.iter().map(|e| e.2).collect();
            // only the part of the wire received before the epilogue counts for liveness
            // a respond() that fails after the complete body (failing body source) returns before its
            // final flush: the bytes legitimately reach the client with a later flush or at the close,
            // so such scenarios are judged on the whole stream ("never answered twice")
            let failing_source = sc.programs.values().any(|p| matches!(&p.finish, Finish::Respond(s) if s.fail_at_end));
            let main_len = if failing_source { co.received.0.len() } else { main.conns.get(ci).map(|c| c.received_len).unwrap_or(0) };
            let bytes = &co.received.0[..main_len.min(co.received.0.len())];
            let parsed = crate::httpmodel::parse_responses(bytes, &|k| heads.get(k).copied().unwrap_or(false));
            if parsed.error.is_some() {
                v.inconclusive = Some(format!("conn {}: response stream unparseable: {:?}", ci, parsed.error));
                continue;
            }
            let got = finals(&parsed);
            let all_finished = exp.iter().all(|e| {
                out.obs.events.iter().any(|ev| matches!(ev, crate::engine::Ev::FinishEnd { id, seq, .. } if id == &e.0 && *seq <= main.seq))
                    || dies(sc.programs.get(&e.0).map(|p| &p.finish))
                    || (holder_panicked && never_started(&e.0))
            });
            for (k, e) in exp.iter().enumerate() {
                let (es, eb) = match &e.1 {
                    Expect::Msg(s, b) => (*s, b.clone()),
                    Expect::Nothing => continue,
                };
                match got.get(k) {
                    Some(m) => {
                        let auto = es == 500 && (matches!(sc.programs.get(&e.0).map(|p| &p.finish), Some(Finish::Drop)) || dies(sc.programs.get(&e.0).map(|p| &p.finish)) || (holder_panicked && never_started(&e.0)));
                        if m.status != es || (!auto && m.body != eb) {
                            v.violations.push(Violation {
                                clause: "C06.status_body".into(),
                                signature: format!("{} answered wrongly", kind_of(sc, &e.0)),
                                detail: format!(
                                    "conn {}: final response #{} (for request {}, action {}) has status {} and {} body bytes; the action dictates status {} and {} bytes",
                                    ci, k, e.0, kind_of(sc, &e.0), m.status, m.body.len(), es, eb.len()
                                ),
                            });
                            break;
                        }
                        if es == 101 {
                            let up = crate::httpmodel::header(&m.headers, "Upgrade").is_some();
                            let cu = crate::httpmodel::header(&m.headers, "Connection").map(|c| c.eq_ignore_ascii_case("upgrade")).unwrap_or(false);
                            if !up || !cu {
                                v.violations.push(Violation {
                                    clause: "C06.status_body".into(),
                                    signature: "upgrade response lacks Upgrade/Connection headers".into(),
                                    detail: format!("conn {}: 101 response headers {:?}", ci, m.headers),
                                });
                            }
                        }
                    }
                    None => {
                        // a response is missing at quiescence
                        if all_finished || dropped_before(sc, &exp, k) {
                            v.violations.push(Violation {
                                clause: "C06.unanswered".into(),
                                signature: format!("no response for a request finished by {}", kind_of(sc, &e.0)),
                                detail: format!(
                                    "conn {}: at quiescence only {} final responses arrived for {} delivered requests; request {} ({}) has none. blocked: {}",
                                    ci, got.len(), exp.len(), e.0, kind_of(sc, &e.0), describe_blocked(main)
                                ),
                            });
                        } else {
                            v.inconclusive = Some(format!("conn {}: handlers did not finish before quiescence: {}", ci, describe_blocked(main)));
                        }
                        break;
                    }
                }
            }
            let n_exp = exp.iter().filter(|e| matches!(e.1, Expect::Msg(..))).count();
            // after a 101 the rest of the stream is opaque
            if got.len() > n_exp {
                v.violations.push(Violation {
                    clause: "C06.count".into(),
                    signature: "more final responses than delivered requests".into(),
                    detail: format!("conn {}: {} final responses for {} delivered requests (statuses {:?})", ci, got.len(), n_exp, got.iter().map(|m| m.status).collect::<Vec<_>>()),
                });
            }
            if exp.iter().any(|e| matches!(sc.programs.get(&e.0).map(|p| &p.finish), Some(Finish::Drop) | Some(Finish::Panic))) && exp.len() > 1 {
                v.nontrivial = true;
            }
            for e in &exp {
                v.tags.push(format!("action:{}", kind_of(sc, &e.0)));
            }
        }
        v
    }
}

/// The handler dies while it owns the request: an explicit panic, or `upgrade` called with a
/// protocol name that cannot be a header value.
fn dies(f: Option<&Finish>) -> bool {
    match f {
        Some(Finish::Panic) => true,
        Some(Finish::Upgrade { proto, .. }) => !proto.is_ascii(),
        _ => false,
    }
}

fn kind_of(sc: &Scenario, id: &str) -> &'static str {
    match sc.programs.get(id).map(|p| &p.finish) {
        Some(Finish::Respond(_)) => "respond",
        Some(Finish::Writer { .. }) => "writer",
        Some(Finish::Upgrade { proto, .. }) if !proto.is_ascii() => "upgrade that panics",
        Some(Finish::Upgrade { .. }) => "upgrade",
        Some(Finish::Drop) => "drop",
        Some(Finish::Panic) => "panic",
        None => "default",
    }
}

fn dropped_before(sc: &Scenario, exp: &[(String, Expect, bool)], k: usize) -> bool {
    exp[..k].iter().any(|e| matches!(sc.programs.get(&e.0).map(|p| &p.finish), Some(Finish::Drop)) || dies(sc.programs.get(&e.0).map(|p| &p.finish)))
}
