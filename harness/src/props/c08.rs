//! C08 — connections are isolated: none waits for another, however many arrive at once.
//! C20 — shutdown stops accepting but not answering; idle workers are reclaimed.

use super::gen::*;
use super::*;
use crate::engine::Ev;
use crate::httpmodel::finals;

pub struct C08c;
pub static C08: C08c = C08c;
pub struct C20c;
pub static C20: C20c = C20c;

fn one_request_conn(g: &mut Rng, ci: usize, open_at: u64, stay_open: bool, stall: bool) -> (ConnScript, String) {
    let id = format!("c{}r0", ci);
    let bytes = Req::get(&id).bytes();
    let mut steps = Vec::new();
    if stall && bytes.len() > 10 {
        let cut = g.usize(1, bytes.len() - 1);
        steps.push(ClientStep::Send(B(bytes[..cut].to_vec())));
        steps.push(ClientStep::Pause(*g.pick(&[MS, 100 * MS, SEC, 5 * SEC])));
        steps.push(ClientStep::Send(B(bytes[cut..].to_vec())));
    } else {
        steps.push(ClientStep::Send(B(bytes)));
    }
    steps.push(ClientStep::AwaitFinals(1));
    if !stay_open {
        steps.push(ClientStep::HalfClose);
        steps.push(ClientStep::AwaitEof);
    }
    (
        ConnScript {
            open_at,
            steps,
            ..Default::default()
        },
        id,
    )
}

/// The pool's idle period as the tree under test exhibits it: none of the properties names its
/// length, so the oracles do not either.  Measured once per process by a fixed calibration run
/// (eight connections arrive together and leave; the live library threads are counted every
/// 100 ms of virtual time until they are back at the number counted before the first client).
/// The value is the first sampling offset, after the last activity, at which the surplus was
/// gone (5.001 s on the shipped constant).  If the surplus never goes within 120 s the shipped
/// value is assumed, and the reclaim clauses then report exactly that.
pub fn idle_period_ns() -> u64 {
    static P: std::sync::OnceLock<u64> = std::sync::OnceLock::new();
    *P.get_or_init(|| {
        if let Ok(v) = std::env::var("DST_IDLE_NS") {
            if let Ok(n) = v.parse::<u64>() {
                return n;
            }
        }
        calibrate_idle().unwrap_or(5_001 * MS)
    })
}

fn calibrate_idle() -> Option<u64> {
    let mut sc = Scenario::new();
    let mut g = Rng::new(0x1d1e).sub("calibration");
    for ci in 0..8 {
        let (c, id) = one_request_conn(&mut g, ci, MS, false, false);
        sc.conns.push(c);
        sc.programs.insert(id.clone(), Program::respond(200, token_body(&id, 10)));
    }
    sc.receivers = loop_receivers(1, Dispatch::Inline);
    sc.driver = vec![DriverStep::Settle, DriverStep::Snapshot("baseline".into())];
    for k in 1..=1200u64 {
        sc.driver.push(DriverStep::SleepUntil(MS + k * 100 * MS + MS));
        sc.driver.push(DriverStep::Settle);
        sc.driver.push(DriverStep::Snapshot(format!("k{}", k)));
    }
    sc.note = "C20 idle-period calibration".into();
    let out = crate::engine::run_scenario(&sc, 1, None, false, false);
    let count = |x: &crate::engine::Snapshot| x.threads.iter().filter(|t| t.0 == "lib" && t.1 != "Finished").count();
    let base = count(snap(&out, "baseline")?);
    let mut peak = 0;
    for k in 1..=1200u64 {
        let n = count(snap(&out, &format!("k{}", k))?);
        peak = peak.max(n);
        if n <= base && peak > base {
            return Some(k * 100 * MS + MS);
        }
    }
    None
}

impl Campaign for C08c {
    fn id(&self) -> &'static str {
        "C08"
    }
    fn rule(&self) -> &'static str {
        "seeded scenarios: N keep-alive connections (1..12 quick, up to 40 thorough) opened as simultaneous bursts, staggered bursts, or a second burst placed 5 s +- epsilon after the first (workers retiring), some stalling mid-request, each sending one complete request and then staying open; PCT/burst schedules let the accept thread outrun woken workers; non-trivial = more than 4 connections were open at once, or a dispatch happened while a notified worker had not yet resumed; distinct = interleaving fingerprint"
    }
    fn runs(&self, tier: Tier) -> u64 {
        match tier {
            Tier::Quick => 80_000,
            Tier::Thorough => 2_000_000,
        }
    }
    fn generate(&self, rng: &mut Rng, index: u64, tier: Tier) -> Scenario {
        let mut sc = Scenario::new();
        let mut k = rng.sub("knobs");
        sc.knobs.strategy = strategy(&mut k);
        sc.knobs.spurious = k.chance(1, 8);
        let mut g = rng.sub("scenario");
        let n = if tier == Tier::Thorough && g.chance(1, 6) {
            g.usize(13, 40)
        } else {
            *g.pick(&[1usize, 2, 3, 4, 5, 5, 6, 6, 7, 8, 12])
        };
        let pattern = g.below(4);
        // the instant at which workers idle since t=0 retire
        let idle = (idle_period_ns() - MS) as i64;
        let eps: [i64; 7] = [-1_000_000, -1, 0, 1, 500_000, 1_000_000, 100_000_000];
        for ci in 0..n {
            let (open_at, stay) = match pattern {
                0 => (0, true),
                1 => (g.below(3) * 500_000, true),
                2 => {
                    // first half at 0 and closing, second half 5 s +- eps later and staying
                    if ci < n / 2 {
                        (0, false)
                    } else {
                        ((idle + *g.pick(&eps)) as u64, true)
                    }
                }
                _ => (if g.chance(1, 2) { 0 } else { (idle + *g.pick(&eps)) as u64 }, g.chance(2, 3)),
            };
            let stall = g.chance(1, 6);
            let (c, id) = one_request_conn(&mut g, ci, open_at, stay, stall);
            sc.conns.push(c);
            sc.programs.insert(id.clone(), Program::respond(200, token_body(&id, 10)));
        }
        sc.receivers = loop_receivers(g.usize(1, 3), Dispatch::Inline);
        sc.note = format!("C08 index {} n={} pattern={}", index, n, pattern);
        sc
    }
    fn check(&self, sc: &Scenario, out: &RunOut) -> Verdict {
        let mut v = Verdict::default();
        let main = match snap(out, "main") {
            Some(s) => s,
            None => {
                v.inconclusive = Some("no main snapshot".into());
                return v;
            }
        };
        let mut starving = vec![];
        let mut unread = 0;
        for (ci, c) in sc.conns.iter().enumerate() {
            let total = sent_bytes(c).len();
            let co = &out.obs.conns[ci];
            if !co.opened || co.sent < total {
                continue;
            }
            let len = main.conns.get(ci).map(|s| s.received_len).unwrap_or(0);
            let p = crate::httpmodel::parse_responses(&co.received.0[..len.min(co.received.0.len())], &|_| false);
            if finals(&p).is_empty() {
                starving.push(ci);
                if main.conns.get(ci).map(|s| s.unread_by_server > 0).unwrap_or(false) {
                    unread += 1;
                }
            }
        }
        if !starving.is_empty() {
            v.violations.push(Violation {
                clause: "C08.no_starvation".into(),
                signature: if unread == starving.len() {
                    "the starving connection's bytes were never read: its task sits in the pool queue with no worker to run it".into()
                } else {
                    "request read but no response".into()
                },
                detail: format!(
                    "at quiescence (t={} ns), with every other connection still open, connection(s) {:?} of {} have sent a complete request and received no response ({} of them were never read from). threads: {}",
                    main.t, starving, sc.conns.len(), unread, describe_blocked(main)
                ),
            });
        }
        // exactly once
        let mut seen = std::collections::BTreeSet::new();
        for d in delivered(&out.obs) {
            if !seen.insert(d.0.clone()) {
                v.violations.push(Violation {
                    clause: "C08.one_worker".into(),
                    signature: "a request was delivered twice".into(),
                    detail: format!("request {} delivered twice", d.0),
                });
            }
        }
        v.nontrivial = out.report.max_threads > 5 + sc.receivers.len() + sc.conns.len() + 1 || sc.conns.len() > 4;
        v.tags.push(format!("n={}", sc.conns.len()));
        v.tags.push(format!("pattern={}", sc.note.rsplit('=').next().unwrap_or("?")));
        v
    }
}

impl Campaign for C20c {
    fn id(&self) -> &'static str {
        "C20"
    }
    fn rule(&self) -> &'static str {
        "seeded histories: a burst of 1..12 connections (thorough: up to 40), each request answered by a handler thread after a generated virtual delay, then either (A) the server is dropped at a generated instant (requests pending in the backlog, queued, or handed out and unanswered) followed by a connect attempt and late answers, or (B) all clients close and the live library threads are counted just before and 1 ms after one idle period (calibrated, not assumed) has passed since the last activity (strict virtual time), or (C, one run in ten) after a burst of 16..40 connections one short connection per fifth of an idle period keeps arriving and the surplus workers of the burst must still be gone 1.3 idle periods after it; non-trivial = (A) at least one request was answered after the drop, or (B, C) more than 4 workers existed; distinct = interleaving fingerprint"
    }
    fn runs(&self, tier: Tier) -> u64 {
        match tier {
            Tier::Quick => 50_000,
            Tier::Thorough => 1_500_000,
        }
    }
    fn uncovered(&self) -> Vec<String> {
        vec!["removal of the UNIX socket file (std::fs::remove_file and the real UnixListener are behind the transport stub)".into()]
    }
    fn extra_assumptions(&self) -> Vec<String> {
        vec![
            format!("the length of the idle period is not part of the property: it is measured by a calibration run in every process (this tree: surplus workers gone {} ms after the last activity) and all instants of the reclaim clauses are placed relative to it", idle_period_ns() / MS),
            "'within a short bounded time' is read as: one virtual second after drop(server) returned (and drop itself takes at most one)".into(),
        ]
    }
    fn generate(&self, rng: &mut Rng, index: u64, tier: Tier) -> Scenario {
        let mut sc = Scenario::new();
        let mut k = rng.sub("knobs");
        sc.knobs.strategy = strategy(&mut k);
        let mut g = rng.sub("scenario");
        let sub_b = index % 2 == 1;
        if index % 10 == 8 {
            // sub C: a large burst, everybody leaves, then one short connection per second keeps
            // arriving: workers that have been idle for the idle period must still go, although
            // some worker is given work every second
            let n = *g.pick(&[16usize, 24, 40]);
            for ci in 0..n {
                let (c, id) = one_request_conn(&mut g, ci, MS, false, false);
                sc.conns.push(c);
                sc.programs.insert(id.clone(), Program::respond(200, token_body(&id, 10)));
            }
            let trickle = 7;
            let p = idle_period_ns() - MS;
            for k in 0..trickle {
                let ci = n + k;
                let (c, id) = one_request_conn(&mut g, ci, p / 5 * (k as u64 + 1), false, false);
                sc.conns.push(c);
                sc.programs.insert(id.clone(), Program::respond(200, token_body(&id, 10)));
            }
            sc.receivers = loop_receivers(2, Dispatch::Inline);
            sc.driver = vec![
                DriverStep::Settle,
                DriverStep::Snapshot("baseline".into()),
                DriverStep::SleepUntil(p / 10 * 13),
                DriverStep::Settle,
                DriverStep::Snapshot("trickle_1.3p".into()),
            ];
            sc.note = format!("C20 index {} sub C n={} trickle={} idle_period={}ms", index, n, trickle, p / MS);
            return sc;
        }
        let n = if tier == Tier::Thorough && g.chance(1, 6) {
            g.usize(13, 40)
        } else {
            *g.pick(&[1usize, 2, 4, 5, 6, 8, 12])
        };
        if sub_b {
            // reclaim: everybody closes, then idle
            let second = g.chance(1, 3);
            let p = idle_period_ns() - MS;
            let mut last = 0u64;
            for ci in 0..n {
                let open_at = if second && ci >= n / 2 { *g.pick(&[p / 5, p / 5 * 4, p, p / 5 * 6]) } else { MS + g.below(2) * MS };
                last = last.max(open_at);
                let (c, id) = one_request_conn(&mut g, ci, open_at, false, false);
                sc.conns.push(c);
                sc.programs.insert(id.clone(), Program::respond(200, token_body(&id, 10)));
            }
            sc.receivers = loop_receivers(g.usize(1, 2), Dispatch::Inline);
            sc.driver = vec![
                // the baseline (accept thread + the pool's fixed minimum) is measured before any client arrives
                DriverStep::Settle,
                DriverStep::Snapshot("baseline".into()),
                DriverStep::SleepUntil(last + p - 100 * MS),
                DriverStep::Settle,
                DriverStep::Snapshot("idle_before".into()),
                DriverStep::SleepUntil(last + p + MS),
                DriverStep::Settle,
                DriverStep::Snapshot("idle_after".into()),
            ];
            sc.note = format!("C20 index {} sub B n={} second_burst={} idle_period={}ms", index, n, second, p / MS);
        } else {
            let mut total = 0;
            for ci in 0..n {
                let open_at = *g.pick(&[0u64, 0, MS, 2 * MS]);
                let id = format!("c{}r0", ci);
                let steps = vec![ClientStep::Send(B(Req::get(&id).bytes())), ClientStep::AwaitFinals(1)];
                sc.conns.push(ConnScript { open_at, steps, ..Default::default() });
                let mut p = Program::respond(200, token_body(&id, *g.pick(&[10usize, 2000, 40000])));
                p.delay = *g.pick(&[0u64, MS, 3 * MS, 10 * MS, SEC]);
                sc.programs.insert(id, p);
                total += 1;
            }
            // receivers take a bounded number of requests so that they are out of the way at drop time
            let nr = g.usize(1, 2);
            let take = g.usize(0, total);
            for r in 0..nr {
                let mine = if r == 0 { take - take / nr * (nr - 1) } else { take / nr };
                sc.receivers.push(Receiver { start_at: 0, calls: vec![RecvCall::Recv; mine], dispatch: Dispatch::Spawn });
            }
            let t_drop = *g.pick(&[0u64, 500_000, MS, 2 * MS, 5 * MS, 2 * SEC]);
            sc.driver = vec![
                DriverStep::SleepUntil(t_drop),
                DriverStep::DropServer,
                // "within a short bounded time": one virtual second is allowed for the accept loop to notice
                DriverStep::Sleep(SEC),
                DriverStep::Settle,
                DriverStep::Connect("after_drop".into()),
                DriverStep::Quiesce,
                DriverStep::Connect("after_drop_late".into()),
            ];
            sc.note = format!("C20 index {} sub A n={} take={} t_drop={}", index, n, take, t_drop);
        }
        sc
    }
    fn check(&self, sc: &Scenario, out: &RunOut) -> Verdict {
        let mut v = Verdict::default();
        if sc.note.contains("sub C") {
            if let (Some(b), Some(s)) = (snap(out, "baseline"), snap(out, "trickle_1.3p").or_else(|| snap(out, "trickle_6500ms"))) {
                let count = |x: &crate::engine::Snapshot| x.threads.iter().filter(|t| t.0 == "lib" && t.1 != "Finished").count();
                let (base, live) = (count(b), count(s));
                // by 1.3 idle periods six connections (one every fifth of a period) have been
                // dispatched since the burst ended at ~1 ms: each can have restarted the idle
                // period of at most one worker
                if live > base + 7 && !sc.knobs.spurious && !sc.knobs.racy_time {
                    v.violations.push(Violation {
                        clause: "C20.reclaim".into(),
                        signature: "surplus workers idle for more than the idle period survive as long as some traffic trickles in".into(),
                        detail: format!("{}: {} library threads alive 1.3 idle periods after the burst (baseline {}, peak {}); the burst ended at t=1 ms and only one short connection per fifth of an idle period has arrived since", sc.note, live, base, out.report.max_threads),
                    });
                }
                v.nontrivial = true;
            }
            v.tags.push("sub=C".into());
            return v;
        }
        let sub_b = sc.note.contains("sub B");
        if sub_b {
            if let Some(s) = snap(out, "idle_after").or_else(|| snap(out, "idle_5001ms")) {
                let live: Vec<_> = s.threads.iter().filter(|t| t.0 == "lib" && t.1 != "Finished").collect();
                let baseline = snap(out, "baseline").map(|b| b.threads.iter().filter(|t| t.0 == "lib" && t.1 != "Finished").count()).unwrap_or(5);
                if live.len() > baseline {
                    v.violations.push(Violation {
                        clause: "C20.reclaim".into(),
                        signature: "surplus idle workers still alive one idle period after the last activity".into(),
                        detail: format!(
                            "{}: {} library threads are alive one idle period (as calibrated, see the note) + 1 ms after the last client activity (baseline measured before the first client: {} threads); peak was {} threads in the run: {}",
                            sc.note, live.len(), baseline, out.report.max_threads, describe_blocked(s)
                        ),
                    });
                }
                v.nontrivial = out.report.max_threads > 5 + 1 + sc.receivers.len() + sc.conns.len().min(4);
            } else {
                v.inconclusive = Some("no idle snapshot".into());
            }
            // every connection was served (bursts around retirement)
            for (ci, co) in out.obs.conns.iter().enumerate() {
                let p = crate::httpmodel::parse_responses(&co.received.0, &|_| false);
                if co.opened && finals(&p).is_empty() {
                    v.violations.push(Violation {
                        clause: "C20.served_while_retiring".into(),
                        signature: "a connection arriving while workers retire is not served".into(),
                        detail: format!("connection {} (opened at {} ns) never got its response", ci, sc.conns[ci].open_at),
                    });
                    break;
                }
            }
            v.tags.push("sub=B".into());
            return v;
        }
        // sub A
        v.tags.push("sub=A".into());
        let drop_ev = out.obs.events.iter().find_map(|e| match e {
            Ev::ServerDrop { seq1, t1, t0, .. } => Some((*seq1, *t0, *t1)),
            _ => None,
        });
        let (drop_seq, drop_t0, drop_t1) = match drop_ev {
            Some(d) => d,
            None => {
                v.inconclusive = Some(format!("server not dropped (receivers finished: {:?})", out.obs.receivers_finished));
                return v;
            }
        };
        for e in &out.obs.events {
            if let Ev::Connect { label, ok, t, seq, .. } = e {
                if *seq > drop_seq && *ok {
                    v.violations.push(Violation {
                        clause: "C20.refuses".into(),
                        signature: format!("connect succeeds after the server was dropped ({})", label),
                        detail: format!("the Server was dropped at t={}..{} ns; a connection attempt '{}' at t={} ns, after the world had settled, was still accepted", drop_t0, drop_t1, label, t),
                    });
                    break;
                }
            }
        }
        if !sc.knobs.racy_time && drop_t1 > drop_t0 + SEC {
            v.violations.push(Violation {
                clause: "C20.drop_is_prompt".into(),
                signature: "dropping the server took virtual time".into(),
                detail: format!("drop(server) blocked for {} ns of virtual time (more than the second allowed)", drop_t1 - drop_t0),
            });
        }
        // answers after the drop reach the client
        let mut late = 0;
        for e in &out.obs.events {
            if let Ev::FinishEnd { id, seq, ok, .. } = e {
                if *seq > drop_seq {
                    late += 1;
                    let ci = conn_of(id).unwrap_or(0);
                    let p = crate::httpmodel::parse_responses(&out.obs.conns[ci].received.0, &|_| false);
                    let want = match sc.programs.get(id).map(|p| &p.finish) {
                        Some(Finish::Respond(s)) => s.body.0.clone(),
                        _ => vec![],
                    };
                    let got = finals(&p).first().map(|m| m.body.clone());
                    if !*ok || got.as_ref() != Some(&want) {
                        v.violations.push(Violation {
                            clause: "C20.answers_after_drop".into(),
                            signature: "a request answered after the drop does not reach the client".into(),
                            detail: format!("request {} was answered after the Server was dropped (respond ok={}); the client received {:?} body bytes, expected {}", id, ok, got.map(|b| b.len()), want.len()),
                        });
                        break;
                    }
                }
            }
        }
        // once the server is dropped and every client has gone, all library threads end
        // within the idle period (the pool makes its idle workers timed when it is dropped)
        if let Some(fin) = snap(out, "final") {
            let live: Vec<_> = fin.threads.iter().filter(|t| t.0 == "lib" && t.1 != "Finished").collect();
            if !live.is_empty() && !sc.knobs.racy_time && !sc.knobs.spurious {
                v.violations.push(Violation {
                    clause: "C20.reclaim_after_drop".into(),
                    signature: "library threads survive the dropped server for longer than the idle period".into(),
                    detail: format!("{}: more than 6 virtual seconds after the Server was dropped and the last client left, {} library thread(s) are still alive: {}", sc.note, live.len(), describe_blocked(fin)),
                });
            }
        }
        v.nontrivial = late > 0;
        v
    }
}
