//! C01 — pipelined responses leave in request order and are never interleaved.

use super::gen::*;
use super::*;
use crate::httpmodel::{finals, parse_requests, parse_responses};

pub struct C01c;
pub static C01: C01c = C01c;

/// What one handler program puts on the wire for its request.
#[derive(Clone, Debug, PartialEq)]
pub enum Expect {
    /// a response with this status and body
    Msg(u16, Vec<u8>),
    /// nothing at all (raw writer dropped unwritten)
    Nothing,
}

pub fn expect_of(p: &Program, is_head: bool) -> Expect {
    match &p.finish {
        Finish::Respond(spec) => {
            let nobody = is_head || (100..200).contains(&spec.status) || spec.status == 204 || spec.status == 304;
            let body = match &spec.replace_data {
                Some((d, _)) => d.0.clone(),
                None => {
                    if spec.ctor == Ctor::Empty {
                        vec![]
                    } else {
                        spec.body.0.clone()
                    }
                }
            };
            Expect::Msg(spec.status, if nobody { vec![] } else { body })
        }
        Finish::Writer { parts, .. } => {
            let all: Vec<u8> = parts.iter().flat_map(|p| p.0.clone()).collect();
            if all.is_empty() {
                Expect::Nothing
            } else {
                let p = parse_responses(&all, &|_| false);
                match p.msgs.first() {
                    Some(m) => Expect::Msg(m.status, m.body.clone()),
                    None => Expect::Nothing,
                }
            }
        }
        // `upgrade` panics on a protocol name that cannot be a header value: the request is dropped
        Finish::Upgrade { proto, .. } if !proto.is_ascii() => Expect::Msg(500, vec![]),
        Finish::Upgrade { resp, .. } => Expect::Msg(101, resp.body.0.clone()),
        Finish::Drop | Finish::Panic => Expect::Msg(500, vec![]),
    }
}

fn gen_action(rng: &mut Rng, id: &str, tier: Tier) -> Finish {
    let sizes: &[usize] = if tier == Tier::Thorough {
        &[0, 10, 1000, 1023, 1024, 1025, 3000, 9000, 40000]
    } else {
        &[0, 10, 1000, 1024, 1025, 3000, 9000]
    };
    match rng.below(10) {
        0..=4 => {
            let len = *rng.pick(sizes);
            let mut spec = RespSpec::simple(200, token_body(id, len));
            if rng.chance(1, 3) {
                // chunked: unknown length through a piece-wise reader
                spec.ctor = Ctor::New;
                spec.declared = None;
                spec.pieces = vec![*rng.pick(&[1usize, 7, 100, 1024, 5000])];
            }
            Finish::Respond(spec)
        }
        5..=7 => {
            let len = *rng.pick(&[0usize, 10, 1000, 1025, 3000]);
            let lit = literal_response(200, &token_body(id, len));
            let parts = *rng.pick(&[0usize, 1, 2, 4]);
            if parts == 0 {
                Finish::Writer {
                    parts: vec![],
                    flush: false,
                }
            } else {
                let flush = rng.chance(1, 2);
                let mut ps = split_parts(&lit, parts, rng);
                if rng.chance(1, 3) {
                    // an empty first part: with `flush` the writer is flushed before anything was
                    // written, without it the first call is a zero-length write
                    ps.insert(0, B(vec![]));
                }
                Finish::Writer { parts: ps, flush }
            }
        }
        8 => Finish::Drop,
        _ => Finish::Panic,
    }
}

impl Campaign for C01c {
    fn id(&self) -> &'static str {
        "C01"
    }
    fn rule(&self) -> &'static str {
        "seeded scenarios: 1-2 connections, pipeline of n requests answered by handler threads in a generated permutation (virtual delays spread over milliseconds or over several seconds, begin-after chains or scheduler-decided), actions respond(identity/chunked, 0..40000 B)/into_writer(0..4 parts, +-flush after each part, +-flush or a zero-length write before the first bytes)/drop, short writes and small send windows; non-trivial = at least one response was started while an earlier request of the same connection was still unfinished; distinct = interleaving fingerprint (hash of the (thread, operation, virtual time) sequence)"
    }
    fn runs(&self, tier: Tier) -> u64 {
        match tier {
            Tier::Quick => 40_000,
            Tier::Thorough => 1_200_000,
        }
    }

    fn generate(&self, rng: &mut Rng, index: u64, tier: Tier) -> Scenario {
        let mut sc = Scenario::new();
        let mut k = rng.sub("knobs");
        sc.knobs.strategy = strategy(&mut k);
        sc.knobs.spurious = k.chance(1, 8);
        let nconn = if k.chance(1, 4) { 2 } else { 1 };
        let max_n = if tier == Tier::Thorough { 6 } else { 4 };
        let mut g = rng.sub("scenario");
        let single_thread = g.chance(1, 4);
        for ci in 0..nconn {
            let n = g.usize(2, max_n);
            let mut msgs = Vec::new();
            let mut ids = Vec::new();
            for r in 0..n {
                let id = format!("c{}r{}", ci, r);
                let mut rq = Req::get(&id);
                if g.chance(1, 4) {
                    let bl = *g.pick(&[1usize, 100, 1024]);
                    rq = rq.with_body(vec![b'x'; bl]);
                }
                msgs.push(rq.bytes());
                ids.push(id);
            }
            // permutation of the answering order
            let mut perm: Vec<usize> = (0..n).collect();
            if n <= 4 {
                // cycle through all n! permutations by run index
                let mut idx = index as usize;
                let mut pool: Vec<usize> = (0..n).collect();
                perm.clear();
                for i in (1..=n).rev() {
                    let f = idx % i;
                    idx /= i;
                    perm.push(pool.remove(f));
                }
            } else {
                g.shuffle(&mut perm);
            }
            let mode = g.below(3); // 0: virtual delays, 1: begin-after chain, 2: scheduler decides
            // the answers are spread over milliseconds or over seconds of virtual time
            let unit = *g.pick(&[MS, MS, 700 * MS, 3 * SEC]);
            for (rank, &r) in perm.iter().enumerate() {
                let id = &ids[r];
                let mut p = Program {
                    delay: 0,
                    after: vec![],
                    body: BodyPlan::None,
                    delay2: 0,
                    finish: gen_action(&mut g, id, tier),
                };
                if single_thread && p.finish == Finish::Panic {
                    p.finish = Finish::Drop;
                }
                if !single_thread {
                    match mode {
                        0 => p.delay = rank as u64 * unit,
                        1 => {
                            if rank > 0 {
                                p.after = vec![ids[perm[rank - 1]].clone()];
                            }
                        }
                        _ => {}
                    }
                }
                sc.programs.insert(id.clone(), p);
            }
            if g.chance(1, 5) {
                // a malformed request ends the pipeline: its 400 is written by the connection
                // thread itself and has to wait for every earlier response
                msgs.push(g.pick(&[&b"BROKEN\r\n\r\n"[..], &b"GET /x HTTP/1.7\r\nX-Id: c9r9\r\n\r\n"[..], &b"GET /x HTTP/1.1\r\nNoColon\r\n\r\n"[..]]).to_vec());
            }
            let seg = match g.below(4) {
                0 => Seg::Whole,
                1 => Seg::PerMessage,
                2 => Seg::Random(3),
                _ => Seg::Fixed(*g.pick(&[7usize, 64, 500])),
            };
            let pause = *g.pick(&[0u64, 0, MS / 2, 2 * MS]);
            let mut c = ConnScript {
                steps: segment(&msgs, seg, pause, &mut g),
                ..Default::default()
            };
            c.coalesce = g.chance(1, 2);
            if g.chance(1, 3) {
                c.short_writes = Some(*g.pick(&[1usize, 13, 700]));
            }
            if g.chance(1, 4) {
                c.window = Some(*g.pick(&[64usize, 1000, 4096]));
                c.drain = Some((*g.pick(&[1usize, 100, 5000]), *g.pick(&[0u64, MS / 10])));
            }
            sc.conns.push(c);
        }
        if single_thread {
            // one thread holds everything and answers in arrival order
            let total: usize = sc.programs.len();
            sc.receivers = vec![Receiver {
                start_at: 0,
                calls: vec![RecvCall::RecvLoop],
                dispatch: if g.chance(1, 2) && nconn == 1 {
                    Dispatch::Hold(total)
                } else {
                    Dispatch::Inline
                },
            }];
        } else {
            sc.receivers = loop_receivers(g.usize(1, 3), Dispatch::Spawn);
        }
        sc.note = format!("C01 index {}", index);
        sc
    }

    fn check(&self, sc: &Scenario, out: &RunOut) -> Verdict {
        let mut v = Verdict::default();
        for (ci, c) in sc.conns.iter().enumerate() {
            let reqs = parse_requests(&sent_bytes(c));
            let co = &out.obs.conns[ci];
            // expected sequence of wire messages
            let mut exp: Vec<(String, Expect)> = Vec::new();
            for r in &reqs {
                if r.class != crate::httpmodel::Class::Valid {
                    // the automatic rejection, written by the connection thread (body not specified)
                    exp.push(("<400>".to_string(), Expect::Msg(400, vec![])));
                    continue;
                }
                let id = r.id.clone().unwrap_or_default();
                let p = sc.programs.get(&id).unwrap_or(&sc.default_program);
                exp.push((id, expect_of(p, r.is_head)));
            }
            let exp_msgs: Vec<(String, u16, Vec<u8>)> = exp
                .iter()
                .filter_map(|(id, e)| match e {
                    Expect::Msg(s, b) => Some((id.clone(), *s, b.clone())),
                    Expect::Nothing => None,
                })
                .collect();
            // the body of the automatic 500 is not specified: matched by status alone
            let auto: Vec<bool> = exp_msgs
                .iter()
                .map(|m| m.0 == "<400>" || matches!(sc.programs.get(&m.0).map(|p| &p.finish), Some(Finish::Drop) | Some(Finish::Panic)))
                .collect();
            // (a) raw token runs: contiguous and ordered
            let runs = token_runs(&co.received.0);
            let exp_runs: Vec<String> = exp_msgs
                .iter()
                .filter(|m| !m.2.is_empty())
                .map(|m| m.0.clone())
                .collect();
            let mut seen = std::collections::BTreeSet::new();
            let mut split = None;
            for r in &runs {
                if !seen.insert(r.clone()) {
                    split = Some(r.clone());
                }
            }
            if let Some(id) = split {
                v.violations.push(Violation {
                    clause: "C01.interleaved".into(),
                    signature: order_signature(sc, &exp),
                    detail: format!(
                        "conn {}: bytes of response {} are interleaved with another response; token runs on the wire: {:?}",
                        ci, id, runs
                    ),
                });
                continue;
            }
            // runs must be a subsequence-prefix of the expected order
            let pos: Vec<Option<usize>> = runs
                .iter()
                .map(|r| exp_runs.iter().position(|e| e == r))
                .collect();
            let ordered = pos.windows(2).all(|w| match (w[0], w[1]) {
                (Some(a), Some(b)) => a < b,
                _ => true,
            });
            if !ordered {
                let sig = order_signature(sc, &exp);
                v.violations.push(Violation {
                    clause: "C01.order".into(),
                    signature: sig,
                    detail: format!(
                        "conn {}: response bodies appear on the wire in order {:?}, requests were received in order {:?}",
                        ci, runs, exp_runs
                    ),
                });
                continue;
            }
            // (b) parsed message sequence is a prefix of the expected sequence
            let heads: Vec<bool> = reqs.iter().map(|r| r.is_head).collect();
            let exp_is_head: Vec<bool> = exp
                .iter()
                .zip(heads.iter())
                .filter(|(e, _)| matches!(e.1, Expect::Msg(..)))
                .map(|(_, h)| *h)
                .collect();
            let parsed = parse_responses(&co.received.0, &|k| {
                exp_is_head.get(k).copied().unwrap_or(false)
            });
            if parsed.error.is_some() {
                // every response of this campaign is individually a plain, well-formed
                // message and the client never disappears: a stream that is not a
                // sequence of messages means bytes of two responses were mixed
                v.violations.push(Violation {
                    clause: "C01.interleaved".into(),
                    signature: order_signature(sc, &exp),
                    detail: format!(
                        "conn {}: the response stream is not a sequence of messages ({}): heads of two responses are mixed",
                        ci,
                        parsed.error.clone().unwrap_or_default()
                    ),
                });
                continue;
            }
            let got: Vec<(u16, &Vec<u8>)> = finals(&parsed)
                .iter()
                .map(|m| (m.status, &m.body))
                .collect();
            for (k, g) in got.iter().enumerate() {
                match exp_msgs.get(k) {
                    Some(e) if e.1 == g.0 && (&e.2 == g.1 || auto[k]) => {}
                    Some(e) => {
                        // which expected message is this?
                        let which = exp_msgs
                            .iter()
                            .position(|x| x.1 == g.0 && &x.2 == g.1);
                        let sig = order_signature(sc, &exp);
                        v.violations.push(Violation {
                            clause: "C01.order".into(),
                            signature: sig,
                            detail: format!(
                                "conn {}: wire message #{} is status {} with {} body bytes (= expected message #{:?}), but the response to request {} (status {}, {} bytes) was due",
                                ci, k, g.0, g.1.len(), which, e.0, e.1, e.2.len()
                            ),
                        });
                        break;
                    }
                    None => {
                        v.violations.push(Violation {
                            clause: "C01.order".into(),
                            signature: "more messages on the wire than requests".into(),
                            detail: format!("conn {}: unexpected extra message #{} status {}", ci, k, g.0),
                        });
                        break;
                    }
                }
            }
        }
        // non-trivial: some FinishStart happened while an earlier request of the same connection was unfinished
        let mut started: Vec<(String, u64)> = vec![];
        let mut ended: std::collections::BTreeMap<String, u64> = Default::default();
        for e in &out.obs.events {
            match e {
                crate::engine::Ev::FinishStart { id, seq, .. } => started.push((id.clone(), *seq)),
                crate::engine::Ev::FinishEnd { id, seq, .. } => {
                    ended.insert(id.clone(), *seq);
                }
                _ => {}
            }
        }
        for (id, s) in &started {
            if let Some((c, r)) = split_id(id) {
                for r0 in 0..r {
                    let e = ended.get(&format!("c{}r{}", c, r0)).copied().unwrap_or(u64::MAX);
                    if e > *s {
                        v.nontrivial = true;
                    }
                }
            }
        }
        let order: Vec<String> = started.iter().map(|s| s.0.clone()).collect();
        v.tags.push(format!("n={}", started.len()));
        if order.windows(2).any(|w| w[0] > w[1]) {
            v.tags.push("answered_out_of_order".into());
        }
        v
    }
}

pub fn split_id(id: &str) -> Option<(usize, usize)> {
    let s = id.strip_prefix('c')?;
    let (a, b) = s.split_once('r')?;
    Some((a.parse().ok()?, b.parse().ok()?))
}

/// Discriminating feature of an order violation: does the scenario contain a raw
/// writer that is dropped without having written anything?
fn order_signature(_sc: &Scenario, exp: &[(String, Expect)]) -> String {
    if exp.iter().any(|e| e.1 == Expect::Nothing) {
        "a raw writer dropped unwritten precedes the overtaking response".into()
    } else {
        "responses out of request order".into()
    }
}
