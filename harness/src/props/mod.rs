//! Campaigns: one per property — a scenario generator and an oracle that
//! evaluates only that property's clauses.

use crate::engine::RunOut;
use crate::rng::Rng;
use crate::scenario::*;

pub mod gen;
pub mod universal;
pub mod conv;
pub mod c01;
pub mod c02;
pub mod c04;
pub mod c06;
pub mod c07;
pub mod c08;
pub mod c09;
pub mod c10;
pub mod c13;
pub mod c14;

#[derive(Clone, Copy, Debug, PartialEq, Eq)]
pub enum Tier {
    Quick,
    Thorough,
}

#[derive(Clone, Debug, serde::Serialize, serde::Deserialize, PartialEq)]
pub struct Violation {
    /// e.g. "C01.order"
    pub clause: String,
    /// stable discriminating feature of the failing scenario (matched against known findings)
    pub signature: String,
    pub detail: String,
}

#[derive(Clone, Debug, Default)]
pub struct Verdict {
    pub violations: Vec<Violation>,
    /// the property's clauses could not be evaluated on this run
    pub inconclusive: Option<String>,
    /// non-trivial by the campaign's rule
    pub nontrivial: bool,
    /// tags counted in the evidence (what this run exercised)
    pub tags: Vec<String>,
}

pub trait Campaign: Sync {
    fn id(&self) -> &'static str;
    fn level(&self) -> &'static str {
        "exploration"
    }
    /// how cases are generated and what makes one non-trivial
    fn rule(&self) -> &'static str;
    /// number of runs of a tier (enumerating campaigns return their exact total)
    fn runs(&self, tier: Tier) -> u64;
    /// true when the run indices enumerate a finite space completely
    fn exhaustive(&self) -> bool {
        false
    }
    fn generate(&self, rng: &mut Rng, index: u64, tier: Tier) -> Scenario;
    fn check(&self, sc: &Scenario, out: &RunOut) -> Verdict;
    /// a crash of the worker process is a violation of this campaign (C14)
    fn crash_is_violation(&self) -> bool {
        false
    }
    fn assumptions(&self) -> Vec<String> {
        let mut v = vec![
            "simrt's Mutex/Condvar/mpsc/atomic/thread stand-ins allow exactly what std documents (any waiter may win, notify_one wakes any one waiter, spurious wake-ups only when the knob is on, FIFO unbounded channels); atomics are sequentially consistent; std::sync::Arc is not a scheduling point".to_string(),
            "code between two simulated operations runs atomically (the crate forbids unsafe code and shares state only through the modelled primitives)".to_string(),
            "transport model: byte streams with segment boundaries, half-close, close (seeded post-close write budget, BrokenPipe/ConnectionReset), reset, send window, short writes; no RST caused by closing with unread input, no EINTR, accept and peer_addr never fail".to_string(),
            "a clean batch is evidence over the sampled schedules/faults, not a proof".to_string(),
        ];
        v.extend(self.extra_assumptions());
        v
    }
    fn extra_assumptions(&self) -> Vec<String> {
        vec![]
    }
    fn uncovered(&self) -> Vec<String> {
        vec![]
    }
}

pub fn all() -> Vec<&'static dyn Campaign> {
    vec![&c01::C01, &c06::C06, &c07::C07, &c07::C17, &c08::C08, &c08::C20, &c10::C10, &c10::C16, &c10::C12, &c09::C09, &c09::C11, &c09::C18, &c02::C02, &c02::C03, &c13::C13, &c13::C15, &c14::C14, &c04::C04, &c04::C19]
}

pub fn by_id(id: &str) -> Option<&'static dyn Campaign> {
    all().into_iter().find(|c| c.id() == id)
}
