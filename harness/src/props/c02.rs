//! C02 — request head fidelity: method, target, version and headers delivered as sent.
//! C03 — the request body is delimited exactly by the message framing.

use super::gen::*;
use super::*;
use crate::engine::Ev;
use crate::httpmodel::Framing;

pub struct C02c;
pub static C02: C02c = C02c;
pub struct C03c;
pub static C03: C03c = C03c;

fn knobs(rng: &mut Rng, sc: &mut Scenario) {
    let mut k = rng.sub("knobs");
    sc.knobs.strategy = strategy(&mut k);
    sc.knobs.unix_listener = k.chance(1, 3);
}

const TCHARS: &[u8] = b"abcdefghijklmnopqrstuvwxyzABCDEFGHIJKLMNOPQRSTUVWXYZ0123456789!#$%&'*+-.^_`|~";
const VCHARS: &[u8] = b"abcdefghijklmnopqrstuvwxyzABCDEFGHIJKLMNOPQRSTUVWXYZ0123456789!\"#$%&'()*+,-./:;<=>?@[\\]^_`{|}~";

fn token(g: &mut Rng, lo: usize, hi: usize) -> String {
    let len = g.usize(lo, hi);
    (0..len).map(|_| *g.pick(TCHARS) as char).collect()
}
fn vis(g: &mut Rng, lo: usize, hi: usize) -> String {
    let len = g.usize(lo, hi);
    (0..len).map(|_| *g.pick(VCHARS) as char).collect()
}

fn gen_value(g: &mut Rng) -> String {
    match g.below(9) {
        0 => String::new(),
        1 => vis(g, 1, 12),
        2 => format!("{}: {}:{}", vis(g, 3, 3), vis(g, 2, 2), vis(g, 4, 4)),
        3 => format!("{} {}\t{}", vis(g, 3, 3), vis(g, 2, 2), vis(g, 4, 4)),
        4 => "a  b   c".to_string(),
        5 => vis(g, 900, 1600),
        6 => "text/html; q=0.9, */*;q=0.1".to_string(),
        7 => "::".to_string(),
        _ => vis(g, 1, 60),
    }
}

fn gen_head(g: &mut Rng, id: &str, big: bool) -> (Vec<u8>, String) {
    let method = match g.below(14) {
        0 => "GET", 1 => "HEAD", 2 => "POST", 3 => "PUT", 4 => "DELETE", 5 => "CONNECT", 6 => "OPTIONS", 7 => "TRACE", 8 => "PATCH",
        9 => "get", 10 => "Get", 11 => "PURGE", 12 => "M-SEARCH", _ => "",
    }
    .to_string();
    let method = if method.is_empty() { token(g, 1, 12) } else { method };
    let target = match g.below(8) {
        0 => "/".to_string(),
        1 => "*".to_string(),
        2 => format!("/{}?{}={}&x=%20%2F", vis(g, 5, 5), token(g, 3, 3), vis(g, 6, 6)),
        3 => format!("http://{}/{}", token(g, 8, 8), vis(g, 10, 10)),
        4 => format!("/{}", if big { vis(g, 1000, 3000) } else { vis(g, 100, 300) }),
        5 => format!("//{}//..//%00", vis(g, 4, 4)),
        6 => format!("/{}#{}", vis(g, 4, 4), vis(g, 4, 4)),
        _ => format!("/{}", vis(g, 1, 40)),
    };
    // HTTP/1.0 closes the connection after the response, which is fine for one request per connection
    let version = if g.chance(1, 4) { "HTTP/1.0" } else { "HTTP/1.1" };
    let mut lines = vec![format!("{} {} {}", method, target, version)];
    let nh = match g.below(6) {
        0 => 0,
        1 => g.usize(1, 3),
        2 => g.usize(40, 64),
        _ => g.usize(1, 12),
    };
    let reserved = ["expect", "content-length", "transfer-encoding", "connection", "x-id", "upgrade", "te"];
    let mut names: Vec<String> = vec![];
    for _ in 0..nh {
        let name = if !names.is_empty() && g.chance(1, 4) {
            // duplicate, possibly in another letter case
            let n = g.pick(&names).clone();
            match g.below(3) {
                0 => n.to_uppercase(),
                1 => n.to_lowercase(),
                _ => n,
            }
        } else {
            match g.below(6) {
                0 => "Host".to_string(),
                1 => "Accept".to_string(),
                2 => "X-Forwarded-For".to_string(),
                3 => "cookie".to_string(),
                _ => token(g, 1, 20),
            }
        };
        if reserved.contains(&name.to_ascii_lowercase().as_str()) {
            continue;
        }
        names.push(name.clone());
        let ows1 = *g.pick(&["", " ", "  ", "\t", " \t "]);
        let ows2 = *g.pick(&["", "", " ", "\t", "  "]);
        lines.push(format!("{}:{}{}{}", name, ows1, gen_value(g), ows2));
    }
    lines.push(format!("X-Id: {}", id));
    let mut o = Vec::new();
    for l in &lines {
        o.extend_from_slice(l.as_bytes());
        o.extend_from_slice(b"\r\n");
    }
    o.extend_from_slice(b"\r\n");
    (o, method)
}

impl Campaign for C02c {
    fn id(&self) -> &'static str {
        "C02"
    }
    fn rule(&self) -> &'static str {
        "seeded scenarios: grammar-directed request heads (nine standard methods and extension tokens incl. lower-case look-alikes, visible-ASCII targets up to 3000 bytes, HTTP/1.0 and 1.1, 0..64 header fields with duplicates in other letter cases, empty values, colons and inner whitespace, OWS around values, values up to 1600 bytes) on 1-2 connections, TCP-like and UNIX-like listeners, delivered under generated segmentations (whole, fixed 1/7/1023/1024/1025, random cuts) through the real accept/pool/queue/recv path; one run in ten is preceded by 4..8 clients that vanish in the middle of a head line (the same pool workers then serve the connections under test), one in 25 is a long-lived connection with 80..200 requests; non-trivial = the head is longer than the 1024-byte read buffer or has duplicate/empty-valued headers; distinct = interleaving fingerprint"
    }
    fn runs(&self, tier: Tier) -> u64 {
        match tier {
            Tier::Quick => 50_000,
            Tier::Thorough => 1_500_000,
        }
    }
    fn generate(&self, rng: &mut Rng, index: u64, _tier: Tier) -> Scenario {
        let mut sc = Scenario::new();
        knobs(rng, &mut sc);
        let mut g = rng.sub("scenario");
        let nconn = g.usize(1, 2);
        for ci in 0..nconn {
            let id = format!("c{}r0", ci);
            let big = g.chance(1, 4);
            let (head, _m) = gen_head(&mut g, &id, big);
            let marker = Req::get(&format!("c{}r1", ci)).bytes();
            let seg = match g.below(6) {
                0 => Seg::Whole,
                1 => Seg::Fixed(*g.pick(&[1usize, 7])),
                2 => Seg::Fixed(*g.pick(&[1023usize, 1024, 1025, 512])),
                3 => Seg::PerMessage,
                _ => Seg::Random(g.usize(1, 6)),
            };
            let mut c = ConnScript { steps: segment(&[head, marker], seg, *g.pick(&[0u64, 0, MS / 10]), &mut g), ..Default::default() };
            c.coalesce = g.chance(1, 2);
            sc.conns.push(c);
            sc.programs.insert(id.clone(), Program::respond(200, token_body(&id, 5)));
            sc.programs.insert(format!("c{}r1", ci), Program::respond(200, b"m".to_vec()));
        }
        if index % 25 == 24 {
            // one long-lived connection: 80..200 requests whose heads add up to far more than 64 KiB
            let ci = sc.conns.len();
            let n = g.usize(80, 200);
            let mut msgs = vec![];
            for r in 0..n {
                let id = format!("c{}r{}", ci, r);
                let rq = Req::get(&id).header("X-Fill", &"f".repeat(g.usize(300, 1200)));
                msgs.push(rq.bytes());
                sc.programs.insert(id.clone(), Program::respond(200, token_body(&id, 5)));
            }
            sc.conns.push(ConnScript { steps: segment(&msgs, Seg::Fixed(*g.pick(&[4096usize, 60000])), 0, &mut g), coalesce: true, ..Default::default() });
        }
        if index % 10 == 7 {
            // earlier clients that vanish in the middle of a head line: 4..8 connections (one per
            // pool worker and more) send a prefix cut inside a line and leave; the connections
            // under test arrive a second later and are served by the same workers
            for c in sc.conns.iter_mut() {
                c.open_at = SEC;
            }
            for _ in 0..g.usize(4, 8) {
                let full = Req::get("zz").header("X-Junk", "junk value").bytes();
                let cut = *g.pick(&[1usize, 2, 3, 5, 9, 14, 20, 27, 40]);
                let end = match g.below(3) {
                    0 => ClientStep::HalfClose,
                    1 => ClientStep::Reset,
                    _ => ClientStep::Close { budget: 0, reset_err: false },
                };
                sc.conns.push(ConnScript { steps: vec![ClientStep::Send(B(full[..cut.min(full.len() - 1)].to_vec())), ClientStep::Pause(MS), end], ..Default::default() });
            }
        }
        sc.receivers = loop_receivers(g.usize(1, 2), Dispatch::Inline);
        sc.note = format!("C02 index {}", index);
        sc
    }
    fn check(&self, sc: &Scenario, out: &RunOut) -> Verdict {
        let mut v = Verdict::default();
        for ci in 0..sc.conns.len() {
            if sc.conns[ci].disabled {
                continue;
            }
            let reqs = conn_requests(sc, ci);
            // every valid request of the connection; the generated head under test is the first one
            for m in reqs.iter().filter(|m| m.class == crate::httpmodel::Class::Valid) {
            if !v.violations.is_empty() {
                break;
            }
            let id = m.id.clone().unwrap_or_default();
            let head = out.obs.events.iter().find_map(|e| match e {
                Ev::Delivered { id: i, head, .. } if *i == id => Some(head.clone()),
                _ => None,
            });
            let head = match head {
                Some(h) => h,
                None => {
                    // not delivered: is something else (a mangled id) delivered instead?
                    let others: Vec<String> = delivered(&out.obs).into_iter().map(|d| d.0).filter(|d| d.starts_with('?') || conn_of(d) == Some(ci)).collect();
                    v.violations.push(Violation {
                        clause: "C02.delivered".into(),
                        signature: "a valid head was not delivered as sent".into(),
                        detail: format!("conn {}: the request {} with a valid head ({} bytes, {} headers) was not handed to the application; delivered instead: {:?}", ci, id, m.head_end - m.start, m.headers.len(), others),
                    });
                    continue;
                }
            };
            let mut diffs = head_diffs(&head, m);
            let want_peer = if sc.knobs.unix_listener { None } else { out.obs.conns[ci].peer.clone() };
            if head.remote_addr != want_peer {
                diffs.push(format!("remote_addr {:?} != client address {:?} (unix listener: {})", head.remote_addr, want_peer, sc.knobs.unix_listener));
            }
            if !diffs.is_empty() {
                v.violations.push(Violation {
                    clause: "C02.fidelity".into(),
                    signature: diffs[0].split(' ').next().unwrap_or("").to_string(),
                    detail: format!("conn {} request {}: {}", ci, id, diffs.join("; ")),
                });
            }
            let long = m.head_end - m.start > 1024;
            let dup = m.headers.iter().enumerate().any(|(i, h)| m.headers[..i].iter().any(|x| x.0.eq_ignore_ascii_case(&h.0))) || m.headers.iter().any(|h| h.1.is_empty());
            if long || dup {
                v.nontrivial = true;
            }
            if long {
                v.tags.push("head>1024".into());
            }
            v.tags.push(format!("method={}", if ["GET", "HEAD", "POST", "PUT", "DELETE", "CONNECT", "OPTIONS", "TRACE", "PATCH"].contains(&m.method.as_str()) { m.method.as_str() } else { "extension" }));
            }
        }
        v
    }
}

fn trunc(s: &str) -> String {
    if s.len() > 80 {
        format!("{}...({} bytes)", &s[..80], s.len())
    } else {
        s.to_string()
    }
}

// ---------------------------------------------------------------------------

impl Campaign for C03c {
    fn id(&self) -> &'static str {
        "C03"
    }
    fn rule(&self) -> &'static str {
        "seeded scenarios: requests with Content-Length N in {0,1,2,1023,1024,1025,2047,2048,2049,10000,70000}, chunked bodies with generated chunkings (sizes 1..9000, hex case, leading zeros, extensions), both headers together, header-name case variants, Connection: upgrade (body = rest of the stream until the client half-closes), each followed by a pipelined marker request, or (one run in twelve) a Content-Length body cut short by the client closing its sending side (a buffered body: never delivered; a streamed one: exactly the bytes sent, then end-of-stream); the application reads with generated size sequences (all 1s, random 1..4096, exactly N, larger than N, one huge) to the first Ok(0) and once more; generated segmentation incl. cuts inside chunk-size lines and at N; non-trivial = the body is non-empty and read with more than one read call; distinct = interleaving fingerprint"
    }
    fn runs(&self, tier: Tier) -> u64 {
        match tier {
            Tier::Quick => 30_000,
            Tier::Thorough => 1_000_000,
        }
    }
    fn generate(&self, rng: &mut Rng, index: u64, tier: Tier) -> Scenario {
        let mut sc = Scenario::new();
        knobs(rng, &mut sc);
        let mut g = rng.sub("scenario");
        let id = "c0r0".to_string();
        let kind = index % 4; // 0,1: content-length  2: chunked  3: both / upgrade
        let lens: &[usize] = if tier == Tier::Thorough { &[0, 1, 2, 1023, 1024, 1025, 2047, 2048, 2049, 10000, 70000] } else { &[0, 1, 2, 1023, 1024, 1025, 2047, 2048, 2049, 10000] };
        let len = *g.pick(lens);
        let payload = token_body("qb", len);
        let mut rq = Req::get(&id);
        rq.method = "POST".into();
        let mut upgrade = false;
        let mut tag = "content-length";
        match kind {
            0 | 1 => {
                let name = *g.pick(&["Content-Length", "content-length", "CONTENT-LENGTH", "cOnTeNt-LeNgTh"]);
                rq.headers.push((name.into(), len.to_string()));
                rq.body = payload.clone();
            }
            2 => {
                tag = "chunked";
                let name = *g.pick(&["Transfer-Encoding", "transfer-encoding", "TRANSFER-ENCODING"]);
                rq.headers.push((name.into(), "chunked".into()));
                let sizes = chunk_sizes(&mut g);
                rq.body = chunk_encode_fancy(&payload, &sizes, &mut g);
            }
            _ => {
                if g.chance(1, 2) {
                    tag = "both";
                    // Content-Length together with Transfer-Encoding: the chunked coding wins
                    let cl = *g.pick(&[0usize, 3, len, len + 7]);
                    if g.chance(1, 2) {
                        rq.headers.push(("Content-Length".into(), cl.to_string()));
                        rq.headers.push(("Transfer-Encoding".into(), "chunked".into()));
                    } else {
                        rq.headers.push(("Transfer-Encoding".into(), "chunked".into()));
                        rq.headers.push(("Content-Length".into(), cl.to_string()));
                    }
                    let sizes = chunk_sizes(&mut g);
                    rq.body = chunk_encode_fancy(&payload, &sizes, &mut g);
                } else {
                    tag = "upgrade";
                    upgrade = true;
                    rq.method = "GET".into();
                    rq.headers.push(("Connection".into(), g.pick(&["upgrade", "Upgrade", "keep-alive, Upgrade"]).to_string()));
                    rq.headers.push(("Upgrade".into(), "sim".into()));
                    rq.body = payload.clone();
                }
            }
        }
        let marker = Req::get("c0r1").bytes();
        let mut msgs = vec![rq.bytes(), marker];
        // one run in twelve: the client's stream ends (orderly) inside a Content-Length body
        let truncated = index % 12 == 1 && tag == "content-length" && len > 0;
        if truncated {
            let whole = rq.bytes();
            let keep = whole.len() - len + g.usize(0, len - 1);
            msgs = vec![whole[..keep].to_vec()];
        }
        let seg = match g.below(6) {
            0 => Seg::Whole,
            1 => Seg::Fixed(*g.pick(&[1usize, 2, 3])),
            2 => Seg::Fixed(*g.pick(&[1023usize, 1024, 1025])),
            3 => Seg::PerMessage,
            _ => Seg::Random(g.usize(1, 8)),
        };
        let mut c = ConnScript { steps: segment(&msgs, seg, *g.pick(&[0u64, 0, MS / 10]), &mut g), ..Default::default() };
        c.coalesce = g.chance(1, 2);
        if upgrade || truncated {
            c.steps.push(ClientStep::HalfClose);
        }
        sc.conns.push(c);
        let body = match g.below(6) {
            0 => BodyPlan::ToEof { buf: 1 },
            1 => BodyPlan::Mixed { sizes: (0..g.usize(1, 12)).map(|_| g.usize(1, 4096)).collect(), buf: g.usize(1, 4096) },
            2 => BodyPlan::ToEof { buf: len.max(1) },
            3 => BodyPlan::ToEof { buf: len + *g.pick(&[1usize, 100, 5000]) },
            4 => BodyPlan::ToEof { buf: 1 << 20 },
            _ => BodyPlan::Mixed { sizes: vec![1, 1, 1, 2, 1], buf: *g.pick(&[7usize, 1024, 8192]) },
        };
        let via_stream = upgrade && g.chance(1, 2);
        if via_stream {
            // read the rest of the connection through the stream returned by Request::upgrade
            sc.programs.insert(id.clone(), Program { delay: 0, after: vec![], body: BodyPlan::None, delay2: 0, finish: Finish::Upgrade { proto: "sim".into(), resp: RespSpec::simple(101, vec![]), ops: vec![StreamOp::ReadToEof] } });
        } else {
            sc.programs.insert(id.clone(), Program { delay: 0, after: vec![], body, delay2: 0, finish: Finish::Respond(RespSpec::simple(200, token_body(&id, 5))) });
        }
        sc.programs.insert("c0r1".into(), Program::respond(200, b"m".to_vec()));
        sc.receivers = loop_receivers(1, if g.chance(1, 2) { Dispatch::Spawn } else { Dispatch::Inline });
        sc.note = format!("C03 index {} framing={} len={}{}", index, tag, len, if truncated { " truncated" } else { "" });
        sc
    }
    fn check(&self, sc: &Scenario, out: &RunOut) -> Verdict {
        let mut v = Verdict::default();
        let reqs = conn_requests(sc, 0);
        let m = match reqs.first() {
            Some(m) => m,
            None => return v,
        };
        let id = m.id.clone().unwrap_or_default();
        let framing = sc.note.split("framing=").nth(1).and_then(|s| s.split(' ').next()).unwrap_or("?").to_string();
        let br = out.obs.events.iter().find_map(|e| match e {
            Ev::BodyRead { id: i, data, eof, err, reads, .. } if *i == id => Some((data.clone(), *eof, err.clone(), *reads)),
            _ => None,
        });
        let head = out.obs.events.iter().find_map(|e| match e {
            Ev::Delivered { id: i, head, .. } if *i == id => Some(head.clone()),
            _ => None,
        });
        let stream_read = out.obs.events.iter().find_map(|e| match e {
            Ev::StreamRead { id: i, data, eof } if *i == id => Some((data.clone(), *eof, None::<String>, 3usize)),
            _ => None,
        });
        if !m.deliverable() {
            // a body that is buffered before delivery and was cut short by end-of-stream: there is
            // nothing to deliver, least of all bytes the client never sent
            if let Some(h) = &head {
                v.violations.push(Violation {
                    clause: "C03.body_bytes".into(),
                    signature: format!("{}: a request whose body was cut short by end-of-stream is delivered", framing),
                    detail: format!("{}: the client sent {} of the {} declared body bytes and closed its sending side; the request was handed to the application (body_length {:?}, bytes read {:?})", sc.note, m.body.len(), sc.note.split("len=").nth(1).and_then(|s| s.split(' ').next()).unwrap_or("?"), h.body_length, br.as_ref().map(|b| b.0 .0.len())),
                });
            }
            v.nontrivial = true;
            v.tags.push(format!("framing={} truncated", framing));
            return v;
        }
        let (data, eof, err, reads) = match br.or(stream_read) {
            Some(b) => b,
            None => {
                let main = snap(out, "main").unwrap();
                if head.is_some() {
                    v.violations.push(Violation {
                        clause: "C03.eof".into(),
                        signature: format!("{}: reading the body never ends", framing),
                        detail: format!("{}: the application is still reading the body at quiescence although the client sent the complete message. blocked: {}", sc.note, describe_blocked(main)),
                    });
                } else {
                    v.inconclusive = Some("request not delivered (not this property's clause)".into());
                }
                return v;
            }
        };
        if let Some(e) = err {
            v.violations.push(Violation {
                clause: "C03.body_bytes".into(),
                signature: format!("{}: read error", framing),
                detail: format!("{}: reading the body failed with {} after {} bytes (body sent: {} bytes)", sc.note, e, data.0.len(), m.body.len()),
            });
            return v;
        }
        if data.0 != m.body {
            let common = data.0.iter().zip(m.body.iter()).take_while(|(a, b)| a == b).count();
            let what = if data.0.len() > m.body.len() && data.0[..m.body.len()] == m.body[..] {
                format!("{} bytes beyond the end of the body were returned (bytes of the next pipelined message)", data.0.len() - m.body.len())
            } else {
                format!("bytes differ from offset {} (read {} bytes, body is {} bytes)", common, data.0.len(), m.body.len())
            };
            v.violations.push(Violation {
                clause: "C03.body_bytes".into(),
                signature: format!("{}: body differs", framing),
                detail: format!("{}: {}", sc.note, what),
            });
            return v;
        }
        if !eof {
            v.violations.push(Violation {
                clause: "C03.eof".into(),
                signature: format!("{}: end-of-stream not stable", framing),
                detail: format!("{}: after the first Ok(0) a further read returned data or an error", sc.note),
            });
        }
        if let Some(h) = head {
            let want = match (&m.framing, framing.as_str()) {
                (Framing::Length(n), "content-length") => Some(Some(*n)),
                (Framing::None, "content-length") => Some(Some(0)),
                (Framing::Chunked, "chunked") => Some(None),
                _ => None, // both headers / upgrade: the statement does not fix the declared length
            };
            if let Some(w) = want {
                if h.body_length != w {
                    v.violations.push(Violation {
                        clause: "C03.body_length".into(),
                        signature: format!("{}: body_length", framing),
                        detail: format!("{}: body_length() = {:?}, expected {:?}", sc.note, h.body_length, w),
                    });
                }
            }
        }
        v.nontrivial = !m.body.is_empty() && reads > 2;
        v.tags.push(format!("framing={}", framing));
        v
    }
}
