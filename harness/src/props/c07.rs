//! C07 — each complete request is delivered exactly once; no lost wake-ups.
//! C17 — unblock releases exactly one receiver; timed / non-blocking receives keep their bounds.

use super::gen::*;
use super::*;
use crate::engine::{Ev, RecvRes};

pub struct C07c;
pub static C07: C07c = C07c;
pub struct C17c;
pub static C17: C17c = C17c;

const TS: [u64; 3] = [2 * MS, 50 * MS, SEC];

fn offsets(t: u64) -> Vec<u64> {
    vec![
        0,
        t / 4,
        t / 2,
        t - 500_000,
        t - 1_000_000,
        t - 999_999,
        t,
        t + 500_000,
        3 * t / 2,
        2 * t - 500_000,
        2 * t,
    ]
}

fn gen_receivers(g: &mut Rng, n: usize, t: u64, allow_try: bool, closer: bool) -> Vec<Receiver> {
    let mut v = Vec::new();
    for i in 0..n {
        let mut calls = Vec::new();
        let k = g.usize(1, 5);
        for _ in 0..k {
            match g.below(if allow_try { 8 } else { 6 }) {
                0 | 1 => calls.push(RecvCall::Recv),
                2 | 3 | 4 => calls.push(RecvCall::RecvTimeout(t)),
                5 => calls.push(RecvCall::IterNext),
                _ => {
                    calls.push(RecvCall::TryRecv);
                    calls.push(RecvCall::Sleep(*g.pick(&[t / 4, t / 2, 500_000])));
                }
            }
        }
        if closer && i == 0 {
            calls.push(RecvCall::RecvLoop);
        }
        v.push(Receiver {
            start_at: *g.pick(&[0u64, 0, t / 2, t - 500_000]),
            calls,
            dispatch: Dispatch::Inline,
        });
    }
    v
}

fn gen_conns(g: &mut Rng, sc: &mut Scenario, t: u64) {
    let p = g.usize(1, 3);
    let offs = offsets(t);
    for ci in 0..p {
        let n = g.usize(1, 4);
        let mut steps = Vec::new();
        let open_at = *g.pick(&offs);
        for r in 0..n {
            let id = format!("c{}r{}", ci, r);
            if r > 0 {
                match g.below(3) {
                    0 => {}
                    1 => steps.push(ClientStep::Pause(*g.pick(&[500_000u64, MS, t / 2, t]))),
                    _ => steps.push(ClientStep::Pause(*g.pick(&offs).max(&1))),
                }
            }
            steps.push(ClientStep::Send(B(Req::get(&id).bytes())));
            sc.programs
                .insert(id.clone(), Program::respond(200, token_body(&id, 10)));
        }
        sc.conns.push(ConnScript {
            open_at,
            steps,
            ..Default::default()
        });
    }
}

/// exactly-once and per-receiver wire order; shared by C07 and C17
fn check_delivery(prop: &str, sc: &Scenario, out: &RunOut, v: &mut Verdict) {
    let deliv = delivered(&out.obs);
    let mut seen = std::collections::BTreeMap::new();
    for d in &deliv {
        *seen.entry(d.0.clone()).or_insert(0usize) += 1;
    }
    for (id, n) in &seen {
        if *n > 1 {
            v.violations.push(Violation {
                clause: format!("{}.exactly_once", prop),
                signature: "a request was delivered more than once".into(),
                detail: format!("request {} was handed to the application {} times", id, n),
            });
        }
    }
    // per receiver, ids of one connection increase
    let mut last: std::collections::BTreeMap<(usize, usize), usize> = Default::default();
    for d in &deliv {
        if let Some((c, r)) = super::c01::split_id(&d.0) {
            if let Some(prev) = last.get(&(d.1, c)) {
                if *prev > r {
                    v.violations.push(Violation {
                        clause: format!("{}.wire_order", prop),
                        signature: "one receiver saw requests of one connection out of wire order".into(),
                        detail: format!("receiver {} got c{}r{} after c{}r{}", d.1, c, r, c, prev),
                    });
                }
            }
            last.insert((d.1, c), r);
        }
    }
    // with a single receiver the requests of a connection arrive without gaps: a later one
    // handed out while an earlier one is still undelivered is out of wire order
    if sc.receivers.len() == 1 {
        let mut by_conn: std::collections::BTreeMap<usize, Vec<usize>> = Default::default();
        for d in &deliv {
            if let Some((c, r)) = super::c01::split_id(&d.0) {
                by_conn.entry(c).or_default().push(r);
            }
        }
        for (c, rs) in by_conn {
            for (pos, r) in rs.iter().enumerate() {
                if *r != pos && !v.violations.iter().any(|x| x.clause.ends_with("wire_order")) {
                    v.violations.push(Violation {
                        clause: format!("{}.wire_order", prop),
                        signature: "one receiver saw requests of one connection out of wire order".into(),
                        detail: format!("the only receiver was handed c{}r{} as request number {} of connection {} (delivery order {:?})", c, r, pos, c, rs),
                    });
                }
            }
        }
    }
}

fn receivers_blocked_in_receive(s: &crate::engine::Snapshot) -> usize {
    s.threads
        .iter()
        .filter(|t| t.0 == "receiver" && t.1.starts_with("Blocked(Condvar"))
        .count()
}

fn all_ids(sc: &Scenario) -> Vec<String> {
    let mut ids = vec![];
    for ci in 0..sc.conns.len() {
        for r in conn_requests(sc, ci) {
            if let Some(id) = r.id {
                ids.push(id);
            }
        }
    }
    ids
}

impl Campaign for C07c {
    fn id(&self) -> &'static str {
        "C07"
    }
    fn rule(&self) -> &'static str {
        "seeded scenarios: 1-3 connections sending 1..4 requests each at instants placed around the receivers' deadlines (T/4, T/2, T-1ms, T-500us, T, T+500us, ...), 1-4 receiver threads each running a generated mix of recv / recv_timeout(T in {2ms,50ms,1s}) / try_recv+sleep / iterator next (one run in eight: threads that only poll with try_recv, before and after 0-3 unblock calls, and must end up with every request), strict and racy virtual time, spurious condvar wake-ups on/off, notify_one target chosen by the scheduler; non-trivial = at least one receiver blocked and was later handed a request, with >= 2 receivers; distinct = interleaving fingerprint"
    }
    fn runs(&self, tier: Tier) -> u64 {
        match tier {
            Tier::Quick => 150_000,
            Tier::Thorough => 4_000_000,
        }
    }
    fn generate(&self, rng: &mut Rng, index: u64, _tier: Tier) -> Scenario {
        let mut sc = Scenario::new();
        let mut k = rng.sub("knobs");
        sc.knobs.strategy = strategy(&mut k);
        sc.knobs.spurious = k.chance(1, 4);
        sc.knobs.racy_time = k.chance(1, 3);
        let mut g = rng.sub("scenario");
        let t = *g.pick(&TS);
        gen_conns(&mut g, &mut sc, t);
        if index % 8 == 7 {
            // an application that never blocks: one or two threads poll with try_recv, a few times
            // while the requests arrive and then, after everything has been sent and queued,
            // more often than there are requests and unblock calls together
            sc.knobs.racy_time = false;
            let p: usize = (0..sc.conns.len()).map(|ci| conn_requests(&sc, ci).len()).sum();
            let u = g.usize(0, 3);
            let mut times: Vec<u64> = (0..u).map(|_| *g.pick(&offsets(t))).collect();
            times.sort();
            for tm in times {
                sc.driver.push(DriverStep::SleepUntil(tm));
                sc.driver.push(DriverStep::Unblock(1));
            }
            for _ in 0..g.usize(1, 2) {
                let mut calls = vec![];
                for _ in 0..g.usize(0, 4) {
                    calls.push(RecvCall::TryRecv);
                    calls.push(RecvCall::Sleep(*g.pick(&[t / 4, t / 2, t])));
                }
                // the clients are done after at most 2T + 4 pauses of at most 2T each
                calls.push(RecvCall::Sleep(12 * t + SEC));
                for _ in 0..p + u + 2 {
                    calls.push(RecvCall::TryRecv);
                    calls.push(RecvCall::Sleep(MS));
                }
                sc.receivers.push(Receiver { start_at: 0, calls, dispatch: Dispatch::Inline });
            }
            sc.note = format!("C07 index {} T={}ns pollers only, {} unblock calls", index, t, u);
            return sc;
        }
        let c = g.usize(1, 4);
        let closer = g.chance(1, 2);
        sc.receivers = gen_receivers(&mut g, c, t, true, closer);
        // wake-ups also race with unblock (half of the runs)
        if g.chance(1, 2) {
            let u = g.usize(1, 3);
            let mut times: Vec<u64> = (0..u).map(|_| *g.pick(&offsets(t))).collect();
            times.sort();
            for tm in times {
                sc.driver.push(DriverStep::SleepUntil(tm));
                sc.driver.push(DriverStep::Unblock(1));
            }
        }
        sc.note = format!("C07 index {} T={}ns", index, t);
        sc
    }
    fn check(&self, sc: &Scenario, out: &RunOut) -> Verdict {
        let mut v = Verdict::default();
        check_delivery("C07", sc, out, &mut v);
        let main = match snap(out, "main") {
            Some(s) => s,
            None => {
                v.inconclusive = Some("no main snapshot".into());
                return v;
            }
        };
        let ids = all_ids(sc);
        let deliv_main: Vec<String> = delivered(&out.obs)
            .into_iter()
            .filter(|d| d.2 <= main.seq)
            .map(|d| d.0)
            .collect();
        let undelivered: Vec<&String> = ids.iter().filter(|i| !deliv_main.contains(i)).collect();
        let blocked = receivers_blocked_in_receive(main);
        let all_sent = out.obs.conns.iter().all(|c| c.script_done);
        if all_sent && !undelivered.is_empty() && blocked > 0 {
            v.violations.push(Violation {
                clause: "C07.no_lost_wakeup".into(),
                signature: lost_signature_at(sc, main, &undelivered),
                detail: format!(
                    "at quiescence (t={} ns) requests {:?} were sent completely but never handed out, while {} receiver thread(s) are blocked waiting for a request. threads: {}",
                    main.t, undelivered, blocked, describe_blocked(main)
                ),
            });
        }
        if sc.note.contains("pollers only") {
            // every poller made more try_recv calls after the last request was queued than there
            // are requests and unblock tokens: each call takes one of them while any is left
            if all_sent && !undelivered.is_empty() {
                v.violations.push(Violation {
                    clause: "C07.polled".into(),
                    signature: "a queued request is never handed to an application that keeps calling try_recv".into(),
                    detail: format!(
                        "{}: requests {:?} were sent completely but never returned by try_recv although every polling thread called it at least {} more times (1 ms apart) after all clients had finished",
                        sc.note, undelivered, ids.len() + 2
                    ),
                });
            }
            v.nontrivial = ids.len() >= 2 || !sc.driver.is_empty();
            v.tags.push("pollers".into());
            return v;
        }
        let woken = out.obs.events.iter().any(|e| matches!(e, Ev::RecvCall { res: RecvRes::Got(_), seq0, seq1, .. } if seq1 > &(seq0 + 8)));
        v.nontrivial = woken && sc.receivers.len() >= 2;
        v.tags.push(format!("receivers={}", sc.receivers.len()));
        if sc.knobs.racy_time {
            v.tags.push("racy_time".into());
        }
        if sc.knobs.spurious {
            v.tags.push("spurious".into());
        }
        v
    }
}

fn lost_signature_at(sc: &Scenario, main: &crate::engine::Snapshot, undelivered: &[&String]) -> String {
    let unserved = undelivered.iter().all(|id| {
        conn_of(id)
            .and_then(|c| main.conns.get(c))
            .map(|c| c.unread_by_server > 0)
            .unwrap_or(false)
    });
    if unserved {
        "the connection's bytes were never read by the server: no worker serves it (pool dispatch)".into()
    } else {
        lost_signature(sc)
    }
}

fn lost_signature(sc: &Scenario) -> String {
    let timed = sc
        .receivers
        .iter()
        .any(|r| r.calls.iter().any(|c| matches!(c, RecvCall::RecvTimeout(_))));
    if timed {
        "a recv_timeout receiver is present (wake-up consumed without taking the item)".into()
    } else {
        "no timed receiver involved".into()
    }
}

impl Campaign for C17c {
    fn id(&self) -> &'static str {
        "C17"
    }
    fn extra_assumptions(&self) -> Vec<String> {
        vec!["duration clauses are evaluated in strict virtual time only (computation takes zero time, so 'plus scheduling latency' is zero); '[about T' is read as T - 1 ms, 'twice its timeout' as 2T".into()]
    }
    fn rule(&self) -> &'static str {
        "seeded scenarios: u in 0..4 unblock calls issued at instants before/while/after receivers block, p requests from 0-2 connections, 1-4 receivers with generated mixes of recv / recv_timeout / iterator (sub-campaign A, exact token accounting) plus try_recv (sub-campaign B), sub-campaign C with u = 0 for the lower time bound; strict virtual time for the duration clauses, racy time and spurious wake-ups for the accounting clauses; non-trivial = at least one unblock was issued while a receiver was inside a receive call; distinct = interleaving fingerprint"
    }
    fn runs(&self, tier: Tier) -> u64 {
        match tier {
            Tier::Quick => 150_000,
            Tier::Thorough => 5_000_000,
        }
    }
    fn generate(&self, rng: &mut Rng, index: u64, _tier: Tier) -> Scenario {
        let mut sc = Scenario::new();
        let mut k = rng.sub("knobs");
        sc.knobs.strategy = strategy(&mut k);
        let sub = index % 3; // 0: A (no try_recv), 1: B (try_recv), 2: C (u = 0)
        sc.knobs.spurious = k.chance(1, 4);
        sc.knobs.racy_time = sub != 2 && k.chance(1, 3);
        let mut g = rng.sub("scenario");
        let t = *g.pick(&TS);
        if g.chance(2, 3) {
            gen_conns(&mut g, &mut sc, t);
            if g.chance(1, 2) {
                sc.conns.truncate(1);
            }
        }
        let c = g.usize(1, 4);
        sc.receivers = gen_receivers(&mut g, c, t, sub == 1, false);
        let u = if sub == 2 { 0 } else { g.usize(0, 4) };
        let mut times: Vec<u64> = (0..u).map(|_| *g.pick(&offsets(t))).collect();
        times.sort();
        for tm in times {
            sc.driver.push(DriverStep::SleepUntil(tm));
            sc.driver.push(DriverStep::Unblock(1));
        }
        sc.note = format!("C17 index {} sub {} T={}ns u={}", index, ["A", "B", "C"][sub as usize], t, u);
        sc
    }
    fn check(&self, sc: &Scenario, out: &RunOut) -> Verdict {
        let mut v = Verdict::default();
        check_delivery("C17", sc, out, &mut v);
        let main = match snap(out, "main") {
            Some(s) => s,
            None => {
                v.inconclusive = Some("no main snapshot".into());
                return v;
            }
        };
        let strict = !sc.knobs.racy_time;
        let u = out
            .obs
            .events
            .iter()
            .filter(|e| matches!(e, Ev::Unblock { seq, .. } if *seq <= main.seq))
            .count();
        let has_try = sc.receivers.iter().any(|r| r.calls.contains(&RecvCall::TryRecv));
        let mut released = 0usize;
        let mut maybe = 0usize;
        let mut try_empty = 0usize;
        for e in &out.obs.events {
            if let Ev::RecvCall { kind, timeout, t0, t1, seq1, res, rx, .. } = e {
                if *seq1 > main.seq {
                    continue;
                }
                let el = t1 - t0;
                match (kind.as_str(), res) {
                    ("recv", RecvRes::Err(_)) | ("iter", RecvRes::Err(_)) => released += 1,
                    ("recv_timeout", RecvRes::Empty) => {
                        if strict && el + MS < *timeout {
                            released += 1;
                            if u == 0 {
                                v.violations.push(Violation {
                                    clause: "C17.lower_bound".into(),
                                    signature: "recv_timeout returned early without request or unblock".into(),
                                    detail: format!("receiver {}: recv_timeout({} ns) returned empty-handed after {} ns although no unblock was ever issued", rx, timeout, el),
                                });
                            }
                        } else {
                            maybe += 1;
                        }
                        if strict && el > 2 * *timeout {
                            v.violations.push(Violation {
                                clause: "C17.upper_bound".into(),
                                signature: "recv_timeout exceeded twice its timeout".into(),
                                detail: format!("receiver {}: recv_timeout({} ns) returned empty-handed only after {} ns (> 2T), spurious wake-ups {}", rx, timeout, el, sc.knobs.spurious),
                            });
                        }
                    }
                    ("try_recv", r) => {
                        if matches!(r, RecvRes::Empty) {
                            try_empty += 1;
                        }
                        if strict && el > 0 {
                            v.violations.push(Violation {
                                clause: "C17.try_recv_nonblocking".into(),
                                signature: "try_recv took virtual time".into(),
                                detail: format!("receiver {}: try_recv took {} ns of virtual time (it must never wait)", rx, el),
                            });
                        }
                    }
                    _ => {}
                }
            }
        }
        if strict && released > u {
            v.violations.push(Violation {
                clause: "C17.one_per_unblock".into(),
                signature: "more receive calls released than unblock calls made".into(),
                detail: format!("{} receive calls returned without a request (recv error / early empty recv_timeout) but only {} unblock calls were made", released, u),
            });
        }
        let blocked = receivers_blocked_in_receive(main);
        if blocked > 0 && released + maybe + if has_try { try_empty } else { 0 } < u {
            v.violations.push(Violation {
                clause: "C17.unblock_not_lost".into(),
                signature: if sc.receivers.iter().any(|r| r.calls.iter().any(|c| matches!(c, RecvCall::RecvTimeout(_)))) {
                    "a recv_timeout receiver is present (wake-up consumed without taking the token)".into()
                } else {
                    "no timed receiver involved".into()
                },
                detail: format!(
                    "at quiescence {} receiver(s) are still blocked in a receive call although {} unblock calls were made and at most {} were consumed. threads: {}",
                    blocked, u, released + maybe, describe_blocked(main)
                ),
            });
        }
        // requests must not be swallowed by an unblock: with a blocked receiver nothing may be left queued
        let ids = all_ids(sc);
        let deliv_main: Vec<String> = delivered(&out.obs).into_iter().filter(|d| d.2 <= main.seq).map(|d| d.0).collect();
        let undelivered: Vec<&String> = ids.iter().filter(|i| !deliv_main.contains(i)).collect();
        if blocked > 0 && !undelivered.is_empty() && out.obs.conns.iter().all(|c| c.script_done) {
            v.violations.push(Violation {
                clause: "C17.request_not_lost".into(),
                signature: lost_signature_at(sc, main, &undelivered),
                detail: format!("requests {:?} were never handed out although {} receiver(s) are blocked waiting; {} unblocks issued. threads: {}", undelivered, blocked, u, describe_blocked(main)),
            });
        }
        let during = out.obs.events.iter().any(|e| match e {
            Ev::Unblock { seq, .. } => out.obs.events.iter().any(|r| matches!(r, Ev::RecvCall { seq0, seq1, .. } if seq0 < seq && seq < seq1)),
            _ => false,
        });
        v.nontrivial = during;
        v.tags.push(format!("u={}", u));
        v.tags.push(format!("sub={}", sc.note.split("sub ").nth(1).and_then(|s| s.split(' ').next()).unwrap_or("?")));
        v
    }
}
