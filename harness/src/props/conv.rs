//! Conversation oracle: what a connection's byte stream obliges the server to do
//! (from the reference model), compared with what the application and the client saw.

use super::c01::{expect_of, Expect};
use super::gen::*;
use crate::engine::RunOut;
use crate::httpmodel::{finals, Class, ReqMsg};
use crate::scenario::*;

#[derive(Clone, Debug)]
pub struct ExpResp {
    /// request id when the response answers a delivered request
    pub id: Option<String>,
    pub status: u16,
    /// None = don't care
    pub body: Option<Vec<u8>>,
    pub is_head: bool,
    pub why: String,
}

#[derive(Clone, Debug)]
pub struct ExpConv {
    pub msgs: Vec<ReqMsg>,
    pub delivered: Vec<String>,
    /// ids (when known) that must never be delivered
    pub forbidden: Vec<String>,
    pub finals: Vec<ExpResp>,
    /// the server must close its sending side after the last response
    pub eof: bool,
    /// the last message is incomplete and the client keeps the connection open: nothing more is due
    pub open_ended: bool,
}

pub fn client_half_closes(c: &ConnScript) -> bool {
    c.steps
        .iter()
        .any(|s| matches!(s, ClientStep::HalfClose | ClientStep::Close { .. }))
}

pub fn expected(sc: &Scenario, ci: usize) -> ExpConv {
    let c = &sc.conns[ci];
    let bytes = sent_bytes(c);
    let msgs = crate::httpmodel::parse_requests(&bytes);
    let mut e = ExpConv {
        msgs: msgs.clone(),
        delivered: vec![],
        forbidden: vec![],
        finals: vec![],
        eof: false,
        open_ended: false,
    };
    let closes = client_half_closes(c);
    let mut ended = false;
    for m in &msgs {
        match m.class {
            Class::Valid => {
                if !m.deliverable() {
                    // buffered body incomplete: never delivered; the connection just ends when the client closes
                    if let Some(id) = &m.id {
                        e.forbidden.push(id.clone());
                    }
                    e.open_ended = !closes;
                    e.eof = closes;
                    ended = true;
                    break;
                }
                let id = m.id.clone().unwrap_or_default();
                e.delivered.push(id.clone());
                let p = sc.programs.get(&id).unwrap_or(&sc.default_program);
                match expect_of(p, m.is_head) {
                    Expect::Msg(s, b) => e.finals.push(ExpResp {
                        id: Some(id),
                        status: s,
                        // the body of the automatic 500 is not specified by any property
                        body: if matches!(p.finish, Finish::Drop | Finish::Panic) { None } else { Some(b) },
                        is_head: m.is_head,
                        why: "handler".into(),
                    }),
                    Expect::Nothing => {}
                }
                if m.last {
                    e.eof = true;
                    ended = true;
                    break;
                }
                if !m.body_complete {
                    // streamed body cut short: what follows is not this oracle's business
                    e.open_ended = true;
                    ended = true;
                    break;
                }
            }
            Class::Reject505 => {
                if let Some(id) = &m.id {
                    e.forbidden.push(id.clone());
                }
                e.finals.push(ExpResp {
                    id: None,
                    status: 505,
                    body: None,
                    is_head: false,
                    why: m.why.clone(),
                });
            }
            Class::Reject400 | Class::Reject417 => {
                if let Some(id) = &m.id {
                    e.forbidden.push(id.clone());
                }
                e.finals.push(ExpResp {
                    id: None,
                    status: if m.class == Class::Reject400 { 400 } else { 417 },
                    body: None,
                    is_head: false,
                    why: m.why.clone(),
                });
                e.eof = true;
                ended = true;
                break;
            }
            Class::SilentClose => {
                if let Some(id) = &m.id {
                    e.forbidden.push(id.clone());
                }
                e.eof = true;
                ended = true;
                break;
            }
            Class::Incomplete => {
                if let Some(id) = &m.id {
                    e.forbidden.push(id.clone());
                }
                e.open_ended = !closes;
                e.eof = closes;
                ended = true;
                break;
            }
        }
    }
    if !ended && closes {
        e.eof = true;
    }
    // everything after the point where parsing stopped must never be delivered
    let stop = msgs.last().map(|m| m.end).unwrap_or(0);
    if ended && stop < bytes.len() {
        for m in crate::httpmodel::parse_requests(&bytes[stop..]) {
            if let Some(id) = m.id {
                if !e.delivered.contains(&id) {
                    e.forbidden.push(id);
                }
            }
        }
        // ids that merely occur textually later (smuggled requests inside bodies etc.)
        for id in ids_in_text(&bytes[stop..]) {
            if !e.delivered.contains(&id) && !e.forbidden.contains(&id) {
                e.forbidden.push(id);
            }
        }
    }
    e
}

/// Every "X-Id: <id>" occurrence in raw bytes.
pub fn ids_in_text(b: &[u8]) -> Vec<String> {
    let pat = b"X-Id: ";
    let mut out = vec![];
    let mut i = 0;
    while i + pat.len() < b.len() {
        if &b[i..i + pat.len()] == pat {
            let s = i + pat.len();
            let e = b[s..].iter().position(|&c| c == b'\r').map(|p| s + p).unwrap_or(b.len());
            out.push(String::from_utf8_lossy(&b[s..e]).into_owned());
            i = e;
        } else {
            i += 1;
        }
    }
    out
}

#[derive(Clone, Debug, PartialEq)]
pub enum Disc {
    /// a request that must not reach the application was delivered
    Forbidden(String),
    /// a deliverable request was not delivered by quiescence
    NotDelivered(String),
    /// something was delivered that the client never sent as a request
    Phantom(String),
    WrongResponse { k: usize, got: u16, want: u16, why: String, body_differs: bool },
    MissingResponse { k: usize, want: u16, why: String },
    ExtraResponse { k: usize, got: u16 },
    MissingEof,
    UnexpectedEof,
    Unparseable(String),
}

/// Compare at the "main" snapshot (every client has run its script, the world is quiescent).
pub fn compare(sc: &Scenario, out: &RunOut, ci: usize) -> (ExpConv, Vec<Disc>) {
    let e = expected(sc, ci);
    let mut d = vec![];
    let main = match out.obs.snaps.get("main") {
        Some(m) => m,
        None => return (e, vec![Disc::Unparseable("no main snapshot".into())]),
    };
    let co = &out.obs.conns[ci];
    let mine: Vec<String> = delivered(&out.obs)
        .into_iter()
        .filter(|x| x.2 <= main.seq)
        .map(|x| x.0)
        .filter(|id| conn_of(id) == Some(ci) || id.starts_with('?'))
        .collect();
    for id in &mine {
        if e.forbidden.contains(id) {
            d.push(Disc::Forbidden(id.clone()));
        } else if !e.delivered.contains(id) && !id.starts_with('?') {
            d.push(Disc::Phantom(id.clone()));
        } else if id.starts_with('?') && sc.conns.len() == 1 {
            d.push(Disc::Phantom(id.clone()));
        }
    }
    for id in &e.delivered {
        if !mine.contains(id) {
            d.push(Disc::NotDelivered(id.clone()));
        }
    }
    let len = main.conns.get(ci).map(|s| s.received_len).unwrap_or(0).min(co.received.0.len());
    let heads: Vec<bool> = e.finals.iter().map(|f| f.is_head).collect();
    let p = crate::httpmodel::parse_responses(&co.received.0[..len], &|k| heads.get(k).copied().unwrap_or(false));
    if let Some(err) = &p.error {
        d.push(Disc::Unparseable(err.clone()));
        return (e, d);
    }
    let got = finals(&p);
    for (k, want) in e.finals.iter().enumerate() {
        match got.get(k) {
            Some(m) => {
                let body_differs = want.body.as_ref().map(|b| b != &m.body).unwrap_or(false);
                if m.status != want.status || body_differs {
                    d.push(Disc::WrongResponse { k, got: m.status, want: want.status, why: want.why.clone(), body_differs });
                    break;
                }
            }
            None => {
                d.push(Disc::MissingResponse { k, want: want.status, why: want.why.clone() });
                break;
            }
        }
    }
    if got.len() > e.finals.len() {
        d.push(Disc::ExtraResponse { k: e.finals.len(), got: got[e.finals.len()].status });
    }
    let fin = main.conns.get(ci).map(|s| s.server_fin).unwrap_or(false);
    if e.eof && !fin {
        d.push(Disc::MissingEof);
    }
    if !e.eof && !e.open_ended && fin {
        d.push(Disc::UnexpectedEof);
    }
    (e, d)
}

/// The server released the connection while bytes of the connection-ending request it had
/// delivered were still unread: with a kernel socket that close is answered by a reset, which
/// destroys response bytes still on their way.  Only judged when the client sent nothing
/// beyond that request and sent its body completely.
pub fn closed_with_unread(sc: &Scenario, out: &RunOut, ci: usize, e: &ExpConv) -> Option<(String, usize)> {
    let main = out.obs.snaps.get("main")?;
    let total = sent_bytes(&sc.conns[ci]).len();
    let ender = e.msgs.iter().find(|m| m.last && m.class == Class::Valid)?;
    let id = ender.id.clone()?;
    if !e.delivered.contains(&id) || !ender.body_complete || ender.end != total {
        return None;
    }
    // an upgrade request's "body" is the rest of the connection: nothing obliges anybody to read it
    if !matches!(ender.framing, crate::httpmodel::Framing::Length(_) | crate::httpmodel::Framing::Chunked) {
        return None;
    }
    if !out.obs.conns[ci].script_done || sc.conns[ci].steps.iter().any(|s| matches!(s, ClientStep::Close { .. } | ClientStep::Reset)) {
        return None;
    }
    let dropped = main.conns.get(ci).map(|c| c.dropped_unread).unwrap_or(0);
    if dropped > 0 {
        Some((id, dropped))
    } else {
        None
    }
}
