//! Shared generator helpers.

use crate::rng::Rng;
use crate::scenario::*;

pub const MS: u64 = 1_000_000;
pub const SEC: u64 = 1_000_000_000;

pub fn strategy(rng: &mut Rng) -> Strat {
    match rng.below(10) {
        0..=2 => Strat::Random,
        3..=6 => Strat::Pct {
            depth: *rng.pick(&[1u32, 2, 3, 5]),
            est_len: *rng.pick(&[100u64, 400, 1500, 6000]),
        },
        _ => Strat::Burst {
            stay_permille: *rng.pick(&[500u32, 900, 990]),
        },
    }
}

/// A body made of tokens `[id:offset]`, so every byte is attributable.
pub fn token_body(id: &str, len: usize) -> Vec<u8> {
    let mut out = Vec::with_capacity(len + 24);
    while out.len() < len {
        let t = format!("[{}:{:06}]", id, out.len());
        out.extend_from_slice(t.as_bytes());
    }
    out.truncate(len);
    out
}

/// The ids whose tokens occur in `bytes`, as maximal runs in order of appearance.
pub fn token_runs(bytes: &[u8]) -> Vec<String> {
    let mut runs: Vec<String> = Vec::new();
    let mut i = 0;
    while i < bytes.len() {
        if bytes[i] == b'[' {
            if let Some(c) = bytes[i + 1..].iter().take(24).position(|&b| b == b':') {
                let id = &bytes[i + 1..i + 1 + c];
                if !id.is_empty()
                    && id.iter().all(|b| b.is_ascii_alphanumeric())
                    && id[0] == b'c'
                {
                    let id = String::from_utf8_lossy(id).into_owned();
                    if runs.last() != Some(&id) {
                        runs.push(id);
                    }
                    i += c + 2;
                    continue;
                }
            }
        }
        i += 1;
    }
    runs
}

pub struct Req {
    pub method: String,
    pub target: String,
    pub version: String,
    pub headers: Vec<(String, String)>,
    pub body: Vec<u8>,
}

impl Req {
    pub fn get(id: &str) -> Req {
        Req {
            method: "GET".into(),
            target: format!("/{}", id),
            version: "HTTP/1.1".into(),
            headers: vec![("Host".into(), "sim".into()), ("X-Id".into(), id.into())],
            body: vec![],
        }
    }
    pub fn with_body(mut self, body: Vec<u8>) -> Req {
        self.method = "POST".into();
        self.headers
            .push(("Content-Length".into(), body.len().to_string()));
        self.body = body;
        self
    }
    pub fn with_chunked(mut self, payload: &[u8], sizes: &[usize]) -> Req {
        self.method = "POST".into();
        self.headers
            .push(("Transfer-Encoding".into(), "chunked".into()));
        self.body = chunk_encode(payload, sizes);
        self
    }
    pub fn header(mut self, n: &str, v: &str) -> Req {
        self.headers.push((n.into(), v.into()));
        self
    }
    pub fn bytes(&self) -> Vec<u8> {
        let mut o = Vec::new();
        o.extend_from_slice(
            format!("{} {} {}\r\n", self.method, self.target, self.version).as_bytes(),
        );
        for (n, v) in &self.headers {
            o.extend_from_slice(format!("{}: {}\r\n", n, v).as_bytes());
        }
        o.extend_from_slice(b"\r\n");
        o.extend_from_slice(&self.body);
        o
    }
}

pub fn chunk_encode(payload: &[u8], sizes: &[usize]) -> Vec<u8> {
    let mut o = Vec::new();
    let mut pos = 0;
    let mut k = 0;
    while pos < payload.len() {
        let s = if sizes.is_empty() {
            payload.len() - pos
        } else {
            sizes[k % sizes.len()].max(1).min(payload.len() - pos)
        };
        k += 1;
        o.extend_from_slice(format!("{:x}\r\n", s).as_bytes());
        o.extend_from_slice(&payload[pos..pos + s]);
        o.extend_from_slice(b"\r\n");
        pos += s;
    }
    o.extend_from_slice(b"0\r\n\r\n");
    o
}

/// A complete, valid HTTP/1.1 response as literal bytes (for the raw writer).
pub fn literal_response(status: u16, body: &[u8]) -> Vec<u8> {
    let mut o = format!(
        "HTTP/1.1 {} Lit\r\nX-Raw: 1\r\nContent-Length: {}\r\n\r\n",
        status,
        body.len()
    )
    .into_bytes();
    o.extend_from_slice(body);
    o
}

pub fn split_parts(bytes: &[u8], parts: usize, rng: &mut Rng) -> Vec<B> {
    if parts <= 1 || bytes.len() < parts {
        return vec![B(bytes.to_vec())];
    }
    let mut cuts: Vec<usize> = (0..parts - 1)
        .map(|_| rng.usize(1, bytes.len() - 1))
        .collect();
    cuts.sort();
    cuts.dedup();
    let mut out = Vec::new();
    let mut p = 0;
    for c in cuts {
        out.push(B(bytes[p..c].to_vec()));
        p = c;
    }
    out.push(B(bytes[p..].to_vec()));
    out
}

#[derive(Clone, Copy, Debug, PartialEq)]
pub enum Seg {
    Whole,
    PerMessage,
    Fixed(usize),
    EveryByte,
    Random(usize),
}

/// Turn a byte stream (given as messages) into Send steps according to `seg`.
pub fn segment(msgs: &[Vec<u8>], seg: Seg, pause: u64, rng: &mut Rng) -> Vec<ClientStep> {
    let all: Vec<u8> = msgs.concat();
    let mut cuts: Vec<usize> = match seg {
        Seg::Whole => vec![],
        Seg::PerMessage => {
            let mut c = vec![];
            let mut p = 0;
            for m in &msgs[..msgs.len().saturating_sub(1)] {
                p += m.len();
                c.push(p);
            }
            c
        }
        Seg::Fixed(n) => (1..)
            .map(|k| k * n.max(1))
            .take_while(|&c| c < all.len())
            .collect(),
        Seg::EveryByte => (1..all.len()).collect(),
        Seg::Random(k) => {
            if all.len() < 2 {
                vec![]
            } else {
                (0..k).map(|_| rng.usize(1, all.len() - 1)).collect()
            }
        }
    };
    cuts.sort();
    cuts.dedup();
    // keep runs affordable: at most ~1500 segments
    if cuts.len() > 1500 {
        let step = cuts.len() / 1500 + 1;
        cuts = cuts.into_iter().step_by(step).collect();
    }
    steps_from_cuts(&all, &cuts, pause)
}

pub fn steps_from_cuts(all: &[u8], cuts: &[usize], pause: u64) -> Vec<ClientStep> {
    let mut steps = Vec::new();
    let mut p = 0;
    for &c in cuts.iter().chain(std::iter::once(&all.len())) {
        if c > p && c <= all.len() {
            if !steps.is_empty() && pause > 0 {
                steps.push(ClientStep::Pause(pause));
            }
            steps.push(ClientStep::Send(B(all[p..c].to_vec())));
            p = c;
        }
    }
    steps
}

/// All bytes a connection script sends, in order.
pub fn sent_bytes(c: &ConnScript) -> Vec<u8> {
    let mut o = Vec::new();
    for s in &c.steps {
        if let ClientStep::Send(b) = s {
            o.extend_from_slice(&b.0);
        }
    }
    o
}

pub fn loop_receivers(n: usize, dispatch: Dispatch) -> Vec<Receiver> {
    (0..n)
        .map(|_| Receiver {
            start_at: 0,
            calls: vec![RecvCall::RecvLoop],
            dispatch: dispatch.clone(),
        })
        .collect()
}

// ---------------------------------------------------------------------------
// oracle helpers

use crate::engine::{Ev, Obs, RunOut, Snapshot};
use crate::httpmodel::{parse_requests, parse_responses, ReqMsg, RespParse};

pub fn conn_requests(sc: &Scenario, ci: usize) -> Vec<ReqMsg> {
    parse_requests(&sent_bytes(&sc.conns[ci]))
}

/// Parse what connection `ci` received; `heads[k]` = k-th final response answers a HEAD.
pub fn wire(out: &RunOut, ci: usize, heads: &[bool]) -> RespParse {
    parse_responses(&out.obs.conns[ci].received.0, &|k| {
        heads.get(k).copied().unwrap_or(false)
    })
}

pub fn delivered(obs: &Obs) -> Vec<(String, usize, u64)> {
    obs.events
        .iter()
        .filter_map(|e| match e {
            Ev::Delivered { id, rx, seq, .. } => Some((id.clone(), *rx, *seq)),
            _ => None,
        })
        .collect()
}

pub fn snap<'a>(out: &'a RunOut, label: &str) -> Option<&'a Snapshot> {
    out.obs.snaps.get(label)
}

/// Threads that are not finished at the snapshot, as (name, state, last_op).
pub fn blocked_threads(s: &Snapshot) -> Vec<(String, String, String)> {
    s.threads
        .iter()
        .filter(|t| t.1 != "Finished")
        .cloned()
        .collect()
}

pub fn describe_blocked(s: &Snapshot) -> String {
    blocked_threads(s)
        .iter()
        .filter(|t| t.0 != "driver")
        .map(|t| format!("{}:{}@{}", t.0, t.1, t.2))
        .collect::<Vec<_>>()
        .join(", ")
}

/// Panics whose location is outside the harness sources (library or std code).
pub fn library_panics(out: &RunOut) -> Vec<String> {
    out.report
        .panics
        .iter()
        .filter(|p| !p.location.contains("harness/src"))
        .map(|p| format!("{} at {} (thread {:?})", p.message, p.location, p.thread_name))
        .collect()
}

pub fn conn_of(id: &str) -> Option<usize> {
    let s = id.strip_prefix('c')?;
    let (a, _) = s.split_once('r')?;
    a.parse().ok()
}

/// Chunked encoding with syntax variants: hex case, leading zeros, chunk extensions.
pub fn chunk_encode_fancy(payload: &[u8], sizes: &[usize], rng: &mut Rng) -> Vec<u8> {
    let mut o = Vec::new();
    let mut pos = 0;
    let mut k = 0;
    while pos < payload.len() {
        let s = if sizes.is_empty() {
            payload.len() - pos
        } else {
            sizes[k % sizes.len()].max(1).min(payload.len() - pos)
        };
        k += 1;
        let mut hex = format!("{:x}", s);
        match rng.below(4) {
            0 => hex = hex.to_uppercase(),
            1 => hex = format!("{}{}", "0".repeat(rng.usize(1, 3)), hex),
            _ => {}
        }
        let ext = match rng.below(5) {
            0 => ";ext=1",
            1 => ";name",
            _ => "",
        };
        o.extend_from_slice(format!("{}{}\r\n", hex, ext).as_bytes());
        o.extend_from_slice(&payload[pos..pos + s]);
        o.extend_from_slice(b"\r\n");
        pos += s;
    }
    o.extend_from_slice(if rng.chance(1, 4) { b"000\r\n\r\n" } else { b"0\r\n\r\n" });
    o
}

pub fn chunk_sizes(rng: &mut Rng) -> Vec<usize> {
    match rng.below(5) {
        0 => vec![],
        1 => vec![1],
        2 => vec![*rng.pick(&[2usize, 15, 16, 255, 256, 1023, 1024, 1025, 4096, 9000])],
        _ => (0..rng.usize(2, 5)).map(|_| rng.usize(1, 3000)).collect(),
    }
}


/// Differences between the head the application saw and the head the client sent.
pub fn head_diffs(head: &crate::engine::HeadObs, m: &ReqMsg) -> Vec<String> {
    let mut diffs = vec![];
    let tr = |s: &str| if s.len() > 80 { format!("{}...({} bytes)", &s[..80], s.len()) } else { s.to_string() };
    if head.method != m.method {
        diffs.push(format!("method {:?} != sent {:?}", tr(&head.method), tr(&m.method)));
    }
    if head.url != m.target {
        diffs.push(format!("target differs: got {:?} sent {:?}", tr(&head.url), tr(&m.target)));
    }
    if head.version != m.version {
        diffs.push(format!("version {:?} != sent {:?}", head.version, m.version));
    }
    if head.headers.len() != m.headers.len() {
        diffs.push(format!("{} headers delivered, {} sent", head.headers.len(), m.headers.len()));
    } else {
        for (k, (a, b)) in head.headers.iter().zip(m.headers.iter()).enumerate() {
            if !a.0.eq_ignore_ascii_case(&b.0) {
                diffs.push(format!("header #{} name {:?} != sent {:?}", k, a.0, b.0));
                break;
            }
            if a.1 != b.1 {
                diffs.push(format!("header #{} ({}) value {:?} != sent {:?}", k, b.0, tr(&a.1), tr(&b.1)));
                break;
            }
        }
    }
    diffs
}

/// A body that is itself a sequence of complete requests (ids c9r<k>): if body bytes are
/// ever parsed as requests, they are delivered and show up as foreign ids.
pub fn requestlike_body(len: usize) -> Vec<u8> {
    let mut o = Vec::with_capacity(len + 64);
    let mut k = 0;
    while o.len() < len {
        o.extend_from_slice(format!("GET /in-body-{} HTTP/1.1\r\nX-Id: c9r{}\r\n\r\n", k, k).as_bytes());
        k += 1;
    }
    o.truncate(len);
    o
}


/// Decorations that change nothing about what a request obliges the server to do according to
/// the reference model, but take different code paths: an expectation the client does not wait
/// for, a chunked instead of a length-delimited body, HTTP/1.0 with keep-alive, HEAD, long and
/// empty header values.  Applied by several campaigns to their ordinary requests.
pub fn spice(g: &mut Rng, mut rq: Req, allow_streaming: bool, allow_head: bool) -> Req {
    let has_body = !rq.body.is_empty();
    if has_body && allow_streaming && g.chance(1, 6) {
        // Content-Length -> chunked with the same payload
        if let Some(pos) = rq.headers.iter().position(|h| h.0.eq_ignore_ascii_case("Content-Length")) {
            rq.headers.remove(pos);
            rq.headers.push(("Transfer-Encoding".into(), "chunked".into()));
            let sizes = chunk_sizes(g);
            rq.body = chunk_encode_fancy(&rq.body.clone(), &sizes, g);
        }
    }
    if has_body && allow_streaming && g.chance(1, 6) {
        rq.headers.push((g.pick(&["Expect", "expect"]).to_string(), g.pick(&["100-continue", "100-Continue"]).to_string()));
    }
    if allow_head && !has_body && rq.method == "GET" && g.chance(1, 8) {
        rq.method = "HEAD".into();
    }
    if rq.version == "HTTP/1.1" && g.chance(1, 8) && !rq.headers.iter().any(|h| h.0.eq_ignore_ascii_case("Connection")) {
        rq.version = "HTTP/1.0".into();
        rq.headers.push(("Connection".into(), g.pick(&["keep-alive", "Keep-Alive"]).to_string()));
    }
    if g.chance(1, 10) {
        let pos = g.usize(0, rq.headers.len());
        rq.headers.insert(pos, ("X-Pad".into(), "p".repeat(*g.pick(&[900usize, 1100, 2500]))));
    }
    if g.chance(1, 10) {
        rq.headers.push(("X-Empty".into(), String::new()));
    }
    rq
}
