//! A conversation generator that draws from the union of the features the other campaigns
//! exercise one at a time (framing kinds, expectations, versions, persistence, one rejected
//! request, handler programs of every kind, clients that hold a body back until the server has
//! answered).  Each conversation check runs a share of its runs on these conversations and
//! reports only the discrepancies that belong to its own property.

use super::conv::{compare, Disc, ExpConv};
use super::gen::*;
use super::*;
use crate::httpmodel::Class;

pub fn gen_universal(rng: &mut Rng, index: u64, allow_bad: bool) -> Scenario {
    let mut sc = Scenario::new();
    let mut k = rng.sub("knobs");
    sc.knobs.strategy = strategy(&mut k);
    sc.knobs.spurious = k.chance(1, 10);
    let mut g = rng.sub("universal");
    let spawn = g.chance(1, 2);
    let n = g.usize(1, 5);
    let bad_at = if allow_bad && g.chance(1, 4) { Some(g.usize(0, n - 1)) } else { None };
    let mut steps: Vec<ClientStep> = vec![];
    let mut pending: Vec<u8> = vec![];
    let mut finals_before = 0usize;
    let mut ended = false;
    let flush = |steps: &mut Vec<ClientStep>, pending: &mut Vec<u8>, g: &mut Rng| {
        if pending.is_empty() {
            return;
        }
        let all = std::mem::take(pending);
        let mut cuts: Vec<usize> = match g.below(4) {
            0 | 1 => vec![],
            2 => (0..g.usize(1, 4)).map(|_| g.usize(1, all.len().max(2) - 1)).collect(),
            _ => (1..).map(|i| i * 997).take_while(|c| *c < all.len()).collect(),
        };
        cuts.sort();
        cuts.dedup();
        let pause = *g.pick(&[0u64, 0, MS / 2]);
        steps.extend(steps_from_cuts(&all, &cuts, pause));
    };
    for r in 0..n {
        let id = format!("c0r{}", r);
        if Some(r) == bad_at {
            let (bytes, _tag) = if g.chance(1, 2) { super::c10::bad_request(&mut g, &id) } else { super::c10::smuggle_request(&mut g, &id, "c0r9") };
            sc.programs.insert("c0r9".into(), Program::respond(200, b"SMUGGLED".to_vec()));
            pending.extend_from_slice(&bytes);
            // what follows a rejected request is either never parsed or (505) parsed normally:
            // the reference model knows; the client simply keeps sending
            continue;
        }
        // ---- the request
        let mut rq = Req::get(&id);
        let kind = g.below(20);
        let mut payload: Vec<u8> = vec![];
        if kind >= 8 {
            let len = *g.pick(&[1usize, 5, 700, 1024, 1025, 3000, 9000]);
            payload = if g.chance(1, 3) { requestlike_body(len) } else { token_body(&format!("q{}", id), len) };
            rq.method = "POST".into();
            if kind >= 17 {
                rq.headers.push(("Transfer-Encoding".into(), "chunked".into()));
                let sizes = chunk_sizes(&mut g);
                rq.body = chunk_encode_fancy(&payload, &sizes, &mut g);
            } else {
                rq.headers.push((g.pick(&["Content-Length", "content-length"]).to_string(), payload.len().to_string()));
                rq.body = payload.clone();
            }
        } else if kind == 0 {
            rq.method = "HEAD".into();
        }
        let expects = !payload.is_empty() && g.chance(1, 5);
        if expects {
            rq.headers.push(("Expect".into(), g.pick(&["100-continue", "100-Continue"]).to_string()));
        }
        if g.chance(1, 10) {
            rq.version = "HTTP/1.0".into();
            if g.chance(3, 4) {
                rq.headers.push(("Connection".into(), "keep-alive".into()));
            }
        } else if g.chance(1, 12) {
            rq.headers.push(("Connection".into(), g.pick(&["close", "Close", "TE, close"]).to_string()));
        }
        if g.chance(1, 10) {
            rq.headers.push(("X-Pad".into(), "p".repeat(*g.pick(&[900usize, 1500]))));
        }
        // ---- the handler program
        let plan = if payload.is_empty() {
            BodyPlan::None
        } else {
            match g.below(10) {
                0..=3 => BodyPlan::None,
                4 | 5 => BodyPlan::Exactly(g.usize(1, payload.len())),
                6 => BodyPlan::Touch(1),
                _ => BodyPlan::ToEof { buf: *g.pick(&[1usize, 100, 4096]) },
            }
        };
        let is_head = rq.method == "HEAD";
        let finish = match g.below(10) {
            0..=4 => Finish::Respond(RespSpec::simple(*g.pick(&[200u16, 404]), token_body(&id, *g.pick(&[0usize, 10, 3000])))),
            5 => {
                let mut s = RespSpec::simple(200, token_body(&id, 9000));
                s.ctor = Ctor::New;
                s.declared = None;
                s.pieces = vec![1000];
                Finish::Respond(s)
            }
            6 | 7 if !is_head => Finish::Writer { parts: split_parts(&literal_response(200, &token_body(&id, 10)), g.usize(1, 3), &mut g), flush: true },
            8 if spawn => Finish::Panic,
            _ => Finish::Drop,
        };
        let reads = !matches!(plan, BodyPlan::None);
        sc.programs.insert(id.clone(), Program { delay: if spawn { *g.pick(&[0u64, 0, MS, 5 * MS]) } else { 0 }, after: vec![], body: plan, delay2: 0, finish });
        // ---- how the client delivers it
        let bytes = rq.bytes();
        let model = crate::httpmodel::parse_requests(&bytes);
        let streams = model.first().map(|m| m.streams_body()).unwrap_or(false);
        let head_len = model.first().map(|m| m.head_end).unwrap_or(bytes.len());
        // holding the body back is legal when the server never needs it before it says something
        let withhold = !ended && streams && (expects || !reads) && g.chance(1, 3);
        if withhold {
            let upto = head_len + if g.chance(1, 2) { 0 } else { g.usize(0, (bytes.len() - head_len).saturating_sub(1)) };
            pending.extend_from_slice(&bytes[..upto]);
            flush(&mut steps, &mut pending, &mut g);
            steps.push(ClientStep::AwaitAfterFinals(finals_before));
            if !reads && model.first().map(|m| m.last).unwrap_or(false) {
                // the request ends the connection and its body is never asked for: the rest is
                // held back until the server has closed its sending side
                steps.push(ClientStep::AwaitEof);
            }
            pending.extend_from_slice(&bytes[upto..]);
        } else {
            pending.extend_from_slice(&bytes);
        }
        finals_before += 1;
        if model.first().map(|m| m.last).unwrap_or(false) {
            ended = true;
        }
    }
    flush(&mut steps, &mut pending, &mut g);
    if g.chance(2, 5) {
        steps.push(ClientStep::HalfClose);
    }
    // a rejected request before a withheld one makes the count of finals uncertain: in that
    // case nothing is withheld (the steps are rebuilt as plain sends)
    if bad_at.is_some() && steps.iter().any(|s| matches!(s, ClientStep::AwaitAfterFinals(_))) {
        let all: Vec<u8> = steps.iter().filter_map(|s| if let ClientStep::Send(b) = s { Some(b.0.clone()) } else { None }).flatten().collect();
        let close = steps.iter().any(|s| matches!(s, ClientStep::HalfClose));
        steps = vec![ClientStep::Send(B(all))];
        if close {
            steps.push(ClientStep::HalfClose);
        }
    }
    sc.conns.push(ConnScript { steps, coalesce: g.chance(1, 2), ..Default::default() });
    sc.receivers = loop_receivers(if spawn { g.usize(1, 2) } else { 1 }, if spawn { Dispatch::Spawn } else { Dispatch::Inline });
    sc.note = format!("universal index {}", index);
    sc
}

/// The part of the conversation oracle's findings that belongs to `prop`.
pub fn universal_verdict(prop: &str, sc: &Scenario, out: &RunOut) -> Verdict {
    let mut v = Verdict::default();
    let main = match snap(out, "main") {
        Some(m) => m,
        None => return v,
    };
    let (e, discs): (ExpConv, Vec<Disc>) = compare(sc, out, 0);
    let has_body_before = |id: &str| -> bool {
        let pos = e.msgs.iter().position(|m| m.id.as_deref() == Some(id)).unwrap_or(0);
        e.msgs[..pos].iter().any(|m| m.class == Class::Valid && m.framing != crate::httpmodel::Framing::None)
    };
    let has_bad = e.msgs.iter().any(|m| m.class != Class::Valid && m.class != Class::Incomplete);
    let has_fatal = e.msgs.iter().any(|m| matches!(m.class, Class::Reject400 | Class::Reject417 | Class::SilentClose));
    for d in &discs {
        let mine: Option<(&str, String)> = match (prop, d) {
            ("C06", Disc::WrongResponse { k, got, want, .. }) if e.finals.get(*k).map(|f| f.id.is_some()).unwrap_or(false) => Some(("C06.status_body", format!("final response #{} has status {} (body as given: no), the handler's action dictates status {}", k, got, want))),
            ("C06", Disc::MissingResponse { k, want, .. }) if e.finals.get(*k).map(|f| f.id.is_some()).unwrap_or(false) => Some(("C06.unanswered", format!("at quiescence response #{} (status {}) has not arrived", k, want))),
            ("C06", Disc::ExtraResponse { k, got }) => Some(("C06.count", format!("unexpected extra response #{} with status {}", k, got))),
            // C10: everything about a rejected request
            ("C10", Disc::Forbidden(id)) if has_bad => Some(("C10.not_delivered", format!("request {} must never reach the application but was delivered", id))),
            ("C10", Disc::WrongResponse { k, got, want, why, .. }) if e.finals.get(*k).map(|f| f.id.is_none()).unwrap_or(false) => Some(("C10.outcome", format!("final response #{} has status {}, expected {} ({})", k, got, want, why))),
            ("C10", Disc::MissingResponse { k, want, why }) if e.finals.get(*k).map(|f| f.id.is_none()).unwrap_or(false) => Some(("C10.no_stall", format!("at quiescence the automatic response #{} (status {}, {}) has not arrived", k, want, why))),
            ("C10", Disc::MissingEof) if has_fatal => Some(("C10.no_stall", "at quiescence the server has not closed the connection after the rejected request".to_string())),
            ("C10", Disc::NotDelivered(id)) if has_bad && !has_fatal => Some(("C10.outcome", format!("request {} behind a refused version was not served (the connection must remain usable)", id))),
            // C12: persistence and orderly close, in conversations without a rejected request
            ("C12", Disc::MissingEof) if !has_bad => Some(("C12.eof_after_last", "all received requests are answered but the server has not closed its sending side".to_string())),
            ("C12", Disc::UnexpectedEof) if !has_bad => Some(("C12.stays_open", "the server closed a connection that must persist".to_string())),
            ("C12", Disc::Forbidden(id)) if !has_bad => Some(("C12.nothing_after_last", format!("request {} was delivered although the connection had ended", id))),
            ("C09", Disc::Phantom(id)) => Some(("C09.boundary", format!("something the client never sent as a request was delivered ({})", id))),
            ("C09", Disc::NotDelivered(id)) if has_body_before(id) => Some(("C09.boundary", format!("request {}, which follows a body-bearing request, was not delivered", id))),
            _ => None,
        };
        if let Some((clause, text)) = mine {
            v.violations.push(Violation {
                clause: clause.into(),
                signature: "mixed-feature conversation".into(),
                detail: format!("{} (expected deliveries {:?}, expected statuses {:?}): {}. blocked: {}", sc.note, e.delivered, e.finals.iter().map(|f| f.status).collect::<Vec<_>>(), text, describe_blocked(main)),
            });
            break;
        }
        if matches!(d, Disc::Unparseable(_)) {
            v.inconclusive = Some(format!("{:?}", d));
        }
    }
    if prop == "C12" && v.violations.is_empty() && !has_bad {
        if let Some((id, n)) = super::conv::closed_with_unread(sc, out, 0, &e) {
            v.violations.push(Violation {
                clause: "C12.orderly_close".into(),
                signature: "mixed-feature conversation".into(),
                detail: format!("{}: the server shut down its reading side / closed the socket while {} bytes of the body of the connection-ending request {} were still unread", sc.note, n, id),
            });
        }
    }
    if prop == "C09" && v.violations.is_empty() {
        // heads of everything delivered are the heads sent
        for m in e.msgs.iter().filter(|m| m.class == Class::Valid) {
            let id = m.id.clone().unwrap_or_default();
            let head = out.obs.events.iter().find_map(|ev| match ev {
                crate::engine::Ev::Delivered { id: i, head, .. } if *i == id => Some(head.clone()),
                _ => None,
            });
            if let Some(h) = head {
                let d = head_diffs(&h, m);
                if !d.is_empty() {
                    v.violations.push(Violation {
                        clause: "C09.boundary".into(),
                        signature: "mixed-feature conversation".into(),
                        detail: format!("{}: request {} was delivered with a head that is not the one sent: {}", sc.note, id, d.join("; ")),
                    });
                    break;
                }
            }
        }
    }
    v.nontrivial = true;
    v.tags.push("universal".into());
    v
}
