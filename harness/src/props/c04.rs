//! C04 — every response is a well-formed, self-delimiting message with exactly the body.
//! C19 — response header policy: protected names, one Content-Type, automatic Date/Server.

use super::gen::*;
use super::*;
use crate::engine::{build_response, Ev};
use crate::httpmodel::{parse_responses, RFraming};
use std::io::Write;

pub struct C04c;
pub static C04: C04c = C04c;
pub struct C19c;
pub static C19: C19c = C19c;

fn knobs(rng: &mut Rng, sc: &mut Scenario) {
    let mut k = rng.sub("knobs");
    sc.knobs.strategy = strategy(&mut k);
}

/// A writer that accepts a seeded random prefix of every write (short writes are legal).
struct SeamWriter {
    out: Vec<u8>,
    rng: Rng,
    limit: usize,
}
impl Write for SeamWriter {
    fn write(&mut self, buf: &[u8]) -> std::io::Result<usize> {
        if buf.is_empty() {
            return Ok(0);
        }
        let n = if self.limit == 0 { buf.len() } else { self.rng.usize(1, buf.len().min(self.limit)) };
        self.out.extend_from_slice(&buf[..n]);
        Ok(n)
    }
    fn flush(&mut self) -> std::io::Result<()> {
        Ok(())
    }
}

fn nobody(status: u16, is_head: bool) -> bool {
    is_head || (100..200).contains(&status) || status == 204 || status == 304
}

fn gen_spec(g: &mut Rng, id: &str, tier: Tier) -> RespSpec {
    let status = match g.below(10) {
        0 => *g.pick(&[100u16, 102, 103, 150, 199]),
        1 | 2 | 3 => 200,
        4 => 204,
        5 => 304,
        6 => *g.pick(&[400u16, 404, 418, 451, 499]),
        7 => *g.pick(&[500u16, 503, 599]),
        8 => *g.pick(&[299u16, 350, 600, 777, 999]),
        // any other status: the neighbours of the body-less ones first, then the whole range
        _ => {
            if g.chance(1, 2) {
                *g.pick(&[201u16, 202, 203, 205, 206, 207, 226, 300, 301, 302, 303, 305, 307, 308])
            } else {
                200 + g.below(400) as u16
            }
        }
    };
    let lens: &[usize] = if tier == Tier::Thorough {
        &[0, 1, 2, 100, 1023, 1024, 1025, 8191, 8192, 8193, 16384, 20000, 32767, 32768, 32769, 40000, 70000]
    } else {
        &[0, 1, 100, 1024, 8191, 8192, 8193, 20000, 32767, 32768, 32769, 40000]
    };
    let len = *g.pick(lens);
    let body = token_body(id, len);
    let mut spec = RespSpec::simple(status, body);
    match g.below(5) {
        0 => {
            spec.ctor = Ctor::New;
            spec.declared = Some(len);
        }
        1 | 2 => {
            spec.ctor = Ctor::New;
            spec.declared = None;
        }
        3 => spec.ctor = Ctor::FromString,
        _ => spec.ctor = Ctor::FromData,
    }
    if len == 0 && g.chance(1, 3) {
        spec.ctor = Ctor::Empty;
    }
    if g.chance(1, 10) {
        spec.ctor = Ctor::FromFile;
    }
    if spec.ctor == Ctor::New {
        spec.pieces = match g.below(4) {
            0 => vec![1],
            1 => vec![*g.pick(&[7usize, 100, 1000, 8192, 8193])],
            2 => (0..3).map(|_| g.usize(1, 9000)).collect(),
            _ => vec![],
        };
    }
    spec.threshold = match g.below(8) {
        0 => Some(0),
        1 => Some(1),
        2 => Some(len.saturating_sub(1)),
        3 => Some(len),
        4 => Some(len + 1),
        5 => Some(usize::MAX),
        _ => None,
    };
    if g.chance(1, 2) {
        spec.headers.push(("X-App".into(), format!("v-{}", g.below(1000)), 1));
    }
    if g.chance(1, 4) {
        spec.headers.push(("Content-Type".into(), "application/octet-stream".into(), 2));
    }
    if g.chance(1, 6) {
        spec.headers.push(("Cache-Control".into(), "no-store, max-age=0".into(), 1));
    }
    spec
}

fn te_variant(g: &mut Rng) -> Option<(String, String)> {
    let name = *g.pick(&["TE", "te", "Te"]);
    let v = match g.below(12) {
        0..=4 => return None,
        5 => "chunked",
        6 => "identity",
        7 => "trailers",
        8 => "trailers, chunked;q=0.5",
        9 => "identity;q=0, chunked",
        10 => "chunked;q=0, identity;q=0.1",
        _ => "gzip, deflate;q=0.5",
    };
    Some((name.to_string(), v.to_string()))
}

/// Check one serialised response (plus anything after it) against its specification.
fn check_message(bytes: &[u8], spec: &RespSpec, is_head: bool, trailing_marker: bool, what: &str) -> Option<(String, String)> {
    // an interim (1xx) response is not a final one: the HEAD flag then belongs to no message here
    let interim = (100..200).contains(&spec.status) && spec.status != 101;
    let heads: Vec<bool> = if interim { vec![false] } else { vec![is_head, false] };
    let p = parse_responses(bytes, &|k| heads.get(k).copied().unwrap_or(false));
    if let Some(e) = &p.error {
        return Some(("C04.well_formed".into(), format!("{}: the bytes sent do not parse as HTTP messages: {}", what, e)));
    }
    let m = match p.msgs.first() {
        Some(m) => m,
        None => return Some(("C04.well_formed".into(), format!("{}: nothing was sent", what))),
    };
    if !m.syntax.is_empty() {
        return Some(("C04.well_formed".into(), format!("{}: {}", what, m.syntax.join("; "))));
    }
    if m.status != spec.status {
        return Some(("C04.status".into(), format!("{}: status on the wire {} differs from the given {}", what, m.status, spec.status)));
    }
    if !m.complete {
        return Some(("C04.self_delimiting".into(), format!("{}: the message is incomplete (framing {:?}, {} body bytes so far)", what, m.framing, m.body.len())));
    }
    if m.framing == RFraming::UntilClose {
        return Some(("C04.self_delimiting".into(), format!("{}: the message has neither Content-Length nor chunked coding: its end is only marked by connection close", what)));
    }
    let want: Vec<u8> = if nobody(spec.status, is_head) { vec![] } else { spec.body.0.clone() };
    if m.body != want {
        return Some(("C04.body".into(), format!("{}: a conforming client recovers {} body bytes, the application gave {} (status {}, HEAD {}, framing {:?})", what, m.body.len(), want.len(), spec.status, is_head, m.framing)));
    }
    if nobody(spec.status, is_head) {
        // no body bytes at all: the next message (or the end) must start right after the head
        let next_ok = if trailing_marker {
            p.msgs.get(1).map(|n| n.start == m.head_end && n.status == 200 && n.body == b"m").unwrap_or(false)
        } else {
            m.head_end == bytes.len()
        };
        if !next_ok {
            return Some(("C04.no_body_bytes".into(), format!("{}: body bytes were sent after the head of a response that must not have any (status {}, HEAD {})", what, spec.status, is_head)));
        }
    } else if trailing_marker {
        match p.msgs.get(1) {
            Some(n) if n.status == 200 && n.body == b"m" && n.complete => {}
            other => {
                return Some(("C04.self_delimiting".into(), format!("{}: the following response is not where the first one ends (parsed {:?})", what, other.map(|n| (n.status, n.body.len())))));
            }
        }
    } else if p.rest != bytes.len() || p.msgs.len() != 1 {
        return Some(("C04.self_delimiting".into(), format!("{}: {} bytes follow the end of the message", what, bytes.len() - m.end)));
    }
    None
}

impl Campaign for C04c {
    fn id(&self) -> &'static str {
        "C04"
    }
    fn rule(&self) -> &'static str {
        "seeded scenarios: a request (HTTP/1.0 keep-alive or 1.1, HEAD or GET, TE header variants) answered with a generated response (status classes 1xx/200/204/304/4xx/5xx/unregistered, the neighbours of the body-less codes such as 203/205/303/305 and uniformly drawn codes 200..599, body 0..70000 bytes around the 8192 chunk size and the 32768 default threshold, length declared or not, thresholds {0,1,len-1,len,len+1,default,usize::MAX}, constructors new/from_data/from_string/empty, body readers handing out 1 byte .. whole), followed by a marker request; bytes leave through the simulated transport with short writes and small send windows; the same response is also serialised with the public raw_print into a writer that accepts seeded random prefixes; non-trivial = the body is non-empty or the status forbids a body; distinct = interleaving fingerprint"
    }
    fn runs(&self, tier: Tier) -> u64 {
        match tier {
            Tier::Quick => 30_000,
            Tier::Thorough => 800_000,
        }
    }
    fn generate(&self, rng: &mut Rng, index: u64, tier: Tier) -> Scenario {
        let mut sc = Scenario::new();
        knobs(rng, &mut sc);
        let mut g = rng.sub("scenario");
        let id = "c0r0".to_string();
        let mut rq = Req::get(&id);
        if g.chance(1, 4) {
            rq.method = "HEAD".into();
        }
        if g.chance(1, 3) {
            rq.version = "HTTP/1.0".into();
            rq.headers.push(("Connection".into(), "keep-alive".into()));
        }
        if let Some((n, v)) = te_variant(&mut g) {
            rq.headers.push((n, v));
        }
        let spec = gen_spec(&mut g, &id, tier);
        sc.programs.insert(id.clone(), Program { delay: 0, after: vec![], body: BodyPlan::None, delay2: 0, finish: Finish::Respond(spec) });
        sc.programs.insert("c0r1".into(), Program::respond(200, b"m".to_vec()));
        let msgs = vec![rq.bytes(), Req::get("c0r1").bytes()];
        let mut c = ConnScript { steps: segment(&msgs, *g.pick(&[Seg::Whole, Seg::PerMessage]), 0, &mut g), ..Default::default() };
        if g.chance(1, 3) {
            c.short_writes = Some(*g.pick(&[1usize, 13, 700, 5000]));
        }
        if g.chance(1, 4) {
            c.window = Some(*g.pick(&[64usize, 1000, 4096]));
            c.drain = Some((*g.pick(&[64usize, 1000, 5000]), *g.pick(&[0u64, MS / 10])));
        }
        sc.conns.push(c);
        sc.receivers = loop_receivers(1, Dispatch::Inline);
        sc.note = format!("C04 index {}", index);
        sc
    }
    fn check(&self, sc: &Scenario, out: &RunOut) -> Verdict {
        let mut v = Verdict::default();
        let reqs = conn_requests(sc, 0);
        let r = match reqs.first() {
            Some(r) => r,
            None => return v,
        };
        let spec = match sc.programs.get("c0r0").map(|p| &p.finish) {
            Some(Finish::Respond(s)) => s.clone(),
            _ => return v,
        };
        let sig = format!(
            "status {} {} len {} declared {}",
            match spec.status { 100..=199 => "1xx", 204 => "204", 304 => "304", _ => "other" },
            if r.is_head { "HEAD" } else { "non-HEAD" },
            if spec.body.0.is_empty() { "0" } else { ">0" },
            if spec.ctor == Ctor::New && spec.declared.is_none() { "no" } else { "yes" }
        );
        // (a) over the simulated connection
        let delivered_both = delivered(&out.obs).len() >= 2;
        let wire = &out.obs.conns[0].received.0;
        if delivered_both {
            if let Some((clause, text)) = check_message(wire, &spec, r.is_head, true, "over the connection") {
                v.violations.push(Violation { clause, signature: sig.clone(), detail: format!("{} (request {} {}.{}, spec status {} ctor {:?} declared {:?} threshold {:?} pieces {:?}): {}", sc.note, r.method, r.version.0, r.version.1, spec.status, spec.ctor, spec.declared, spec.threshold, spec.pieces, text) });
            }
        } else {
            v.inconclusive = Some("requests not delivered (not this property's clause)".into());
        }
        // (b) the public raw_print into a writer that accepts random prefixes
        let mut w = SeamWriter { out: Vec::new(), rng: Rng::new(crate::rng::str_hash(&sc.note)), limit: *[0usize, 1, 17, 5000].get((crate::rng::str_hash(&sc.note) % 4) as usize).unwrap() };
        let hdrs: Vec<tiny_http::Header> = r.headers.iter().filter_map(|h| tiny_http::Header::from_bytes(h.0.as_bytes(), h.1.as_bytes()).ok()).collect();
        let resp = build_response(&spec);
        let res = resp.raw_print(&mut w, tiny_http::HTTPVersion(r.version.0, r.version.1), &hdrs, r.is_head, None);
        match res {
            Err(e) => v.violations.push(Violation { clause: "C04.well_formed".into(), signature: sig.clone(), detail: format!("{}: raw_print into an error-free writer failed: {}", sc.note, e) }),
            Ok(()) => {
                if let Some((clause, text)) = check_message(&w.out, &spec, r.is_head, false, "raw_print into a short-writing writer") {
                    v.violations.push(Violation { clause, signature: sig.clone(), detail: format!("{} (spec status {} ctor {:?} declared {:?} threshold {:?}): {}", sc.note, spec.status, spec.ctor, spec.declared, spec.threshold, text) });
                }
            }
        }
        v.nontrivial = !spec.body.0.is_empty() || nobody(spec.status, r.is_head);
        v.tags.push(sig);
        v
    }
}

// ---------------------------------------------------------------------------

/// IMF-fixdate of a UNIX time (independent of httpdate).
pub fn imf_fixdate(secs: u64) -> String {
    let days = (secs / 86400) as i64;
    let rem = secs % 86400;
    let (h, mi, s) = (rem / 3600, rem % 3600 / 60, rem % 60);
    // civil-from-days (Howard Hinnant)
    let z = days + 719468;
    let era = if z >= 0 { z } else { z - 146096 } / 146097;
    let doe = z - era * 146097;
    let yoe = (doe - doe / 1460 + doe / 36524 - doe / 146096) / 365;
    let y = yoe + era * 400;
    let doy = doe - (365 * yoe + yoe / 4 - yoe / 100);
    let mp = (5 * doy + 2) / 153;
    let d = doy - (153 * mp + 2) / 5 + 1;
    let m = if mp < 10 { mp + 3 } else { mp - 9 };
    let y = if m <= 2 { y + 1 } else { y };
    let wd = ["Thu", "Fri", "Sat", "Sun", "Mon", "Tue", "Wed"][(days.rem_euclid(7)) as usize];
    let mon = ["Jan", "Feb", "Mar", "Apr", "May", "Jun", "Jul", "Aug", "Sep", "Oct", "Nov", "Dec"][(m - 1) as usize];
    format!("{}, {:02} {} {:04} {:02}:{:02}:{:02} GMT", wd, d, mon, y, h, mi, s)
}

const PROTECTED: [&str; 4] = ["Connection", "Trailer", "Transfer-Encoding", "Upgrade"];

fn case_variant(g: &mut Rng, n: &str) -> String {
    match g.below(3) {
        0 => n.to_string(),
        1 => n.to_lowercase(),
        _ => n.to_uppercase(),
    }
}

impl Campaign for C19c {
    fn id(&self) -> &'static str {
        "C19"
    }
    fn rule(&self) -> &'static str {
        "seeded scenarios: 1-4 requests on one connection, each dropped unanswered or by a panicking handler (one in eight: the automatic response must carry one Date and one Server like any other) or answered with a response built by a generated constructor (from_string with multi-byte UTF-8, from_data, empty, new; optionally with_data replacing the body) and a generated header list (ordinary names with duplicates, the protected names Connection/Trailer/Transfer-Encoding/Upgrade, Content-Length, several Content-Types, Date and Server supplied or not; any letter case; added through the constructor, add_header or with_header), under a virtual wall clock started at a generated date (1970 .. 9998, leap days, minute/day/year roll-overs) and jumped between the responses; the Date on the wire must be the IMF-fixdate of the virtual instant of the respond call; non-trivial = a protected/special name was supplied or the clock was jumped; distinct = interleaving fingerprint"
    }
    fn runs(&self, tier: Tier) -> u64 {
        match tier {
            Tier::Quick => 100_000,
            Tier::Thorough => 3_000_000,
        }
    }
    fn generate(&self, rng: &mut Rng, index: u64, _tier: Tier) -> Scenario {
        let mut sc = Scenario::new();
        knobs(rng, &mut sc);
        let mut g = rng.sub("scenario");
        sc.knobs.wall_base_secs = match g.below(10) {
            0 => 0,
            1 => 59,
            2 => 951_782_399,      // 2000-02-28 23:59:59
            3 => 951_868_799,      // 2000-02-29 23:59:59 (leap day)
            4 => 1_709_251_199,    // 2024-02-29 23:59:59
            5 => 946_684_799,      // 1999-12-31 23:59:59
            6 => 4_102_444_799,    // 2099-12-31 23:59:59
            7 => 253_370_764_799,  // 9998-12-31 23:59:59
            8 => 2_147_483_647,
            _ => g.range(0, 253_370_764_799),
        };
        let n = g.usize(1, 4);
        let mut steps = vec![];
        let mut special = false;
        let mut panics = false;
        let mut wall_now = sc.knobs.wall_base_secs as i64;
        for r in 0..n {
            let id = format!("c0r{}", r);
            if r > 0 {
                steps.push(ClientStep::AwaitFinals(r));
                if g.chance(2, 3) {
                    let j = *g.pick(&[1i64, 59, 86_400, -3600, 31_536_000, 1_000_000_000]);
                    // stay inside the years 1970..9998 (the range an HTTP-date can express)
                    // (cumulative: earlier jumps and pauses of this conversation count)
                    let after = wall_now + j;
                    if after >= 0 && after + 400 < 253_402_300_799 {
                        steps.push(ClientStep::JumpWall(j));
                        wall_now = after;
                        special = true;
                    }
                }
                if g.chance(1, 2) {
                    // gaps below one second that still cross a change of the second, and longer ones
                    steps.push(ClientStep::Pause(*g.pick(&[SEC, 61 * SEC, MS, 300 * MS, 600 * MS, 999 * MS, 400 * MS])));
                    if wall_now + 70 >= 253_402_300_799 {
                        steps.pop();
                    } else if let Some(ClientStep::Pause(p)) = steps.last() {
                        wall_now += (*p / SEC) as i64 + 1;
                    }
                }
            }
            steps.push(ClientStep::Send(B(Req::get(&id).bytes())));
            let text = *g.pick(&["plain ascii", "h\u{e9}llo w\u{f6}rld \u{2713}", "\u{65e5}\u{672c}\u{8a9e}\u{30c6}\u{30ad}\u{30b9}\u{30c8}", ""]);
            let mut spec = RespSpec::simple(200, text.as_bytes().to_vec());
            spec.ctor = match g.below(5) {
                0 => Ctor::FromString,
                1 => Ctor::FromData,
                2 => Ctor::New,
                3 => Ctor::FromFile,
                _ => {
                    spec.body = B(vec![]);
                    Ctor::Empty
                }
            };
            if spec.ctor == Ctor::New {
                spec.declared = Some(spec.body.0.len());
            }
            let nh = g.usize(0, 8);
            for k in 0..nh {
                let via = if spec.ctor == Ctor::New { g.below(3) as u8 } else { 1 + g.below(2) as u8 };
                let (name, value) = match g.below(12) {
                    0 | 1 => {
                        special = true;
                        let pn = *g.pick(&PROTECTED);
                        (case_variant(&mut g, pn), format!("app-{}-{}", r, k))
                    }
                    2 => {
                        special = true;
                        (case_variant(&mut g, "Content-Type"), format!("type/app-{}-{}", r, k))
                    }
                    3 => {
                        special = true;
                        (case_variant(&mut g, "Content-Length"), spec.body.0.len().to_string())
                    }
                    4 => {
                        special = true;
                        (case_variant(&mut g, "Date"), "Tue, 15 Nov 1994 08:12:31 GMT".to_string())
                    }
                    5 => {
                        special = true;
                        (case_variant(&mut g, "Server"), format!("app-server-{}", k))
                    }
                    6 => ("X-Dup".to_string(), format!("dup-{}-{}", r, k)),
                    _ => (format!("X-H{}", k), format!("val-{}-{}", r, k)),
                };
                spec.headers.push((name, value, via));
            }
            if g.chance(1, 3) {
                let nb = "replaced \u{2603} body".as_bytes().to_vec();
                let l = nb.len();
                spec.replace_data = Some((B(nb), Some(l)));
                // a Content-Length supplied by the application must be the true length: with a
                // replaced body that depends on where the header comes, so none is supplied here
                spec.headers.retain(|h| !h.0.eq_ignore_ascii_case("Content-Length"));
                // the body may be replaced at any point of the header sequence
                let later = spec.headers.iter().filter(|h| !(h.2 == 0 && spec.ctor == Ctor::New)).count();
                spec.replace_at = if g.chance(1, 2) { Some(g.usize(0, later)) } else { None };
            }
            // one request in eight is not answered by the application at all: the automatic
            // response (request dropped, or its handler panicking) is a response like any other
            let finish = match g.below(16) {
                0 => Finish::Drop,
                1 => {
                    panics = true;
                    Finish::Panic
                }
                _ => Finish::Respond(spec),
            };
            sc.programs.insert(id, Program { delay: 0, after: vec![], body: BodyPlan::None, delay2: 0, finish });
        }
        sc.conns.push(ConnScript { steps, ..Default::default() });
        sc.receivers = loop_receivers(1, if panics { Dispatch::Spawn } else { Dispatch::Inline });
        sc.note = format!("C19 index {} special={}", index, special);
        sc
    }
    fn check(&self, sc: &Scenario, out: &RunOut) -> Verdict {
        let mut v = Verdict::default();
        let p = parse_responses(&out.obs.conns[0].received.0, &|_| false);
        if p.error.is_some() {
            v.inconclusive = p.error.clone();
            return v;
        }
        let reqs = conn_requests(sc, 0);
        for (k, r) in reqs.iter().enumerate() {
            let id = r.id.clone().unwrap_or_default();
            let m = match p.msgs.get(k) {
                Some(m) if m.complete => m,
                _ => {
                    v.inconclusive = Some(format!("response #{} missing", k));
                    break;
                }
            };
            let spec = match sc.programs.get(&id).map(|p| &p.finish) {
                Some(Finish::Respond(s)) => s,
                _ => {
                    // the automatic response for a request the application dropped: one Date
                    // (the virtual instant of the drop) and one Server header
                    let is = |n: &str, x: &str| n.eq_ignore_ascii_case(x);
                    let dates: Vec<&(String, String)> = m.headers.iter().filter(|h| is(&h.0, "Date")).collect();
                    let servers = m.headers.iter().filter(|h| is(&h.0, "Server")).count();
                    let wall = out.obs.events.iter().find_map(|e| match e {
                        Ev::FinishStart { id: i, wall, .. } if *i == id => Some(*wall),
                        _ => None,
                    });
                    let mut bad: Option<(&str, String)> = None;
                    if dates.len() != 1 {
                        bad = Some(("C19.date", format!("{} Date headers", dates.len())));
                    } else if servers != 1 {
                        bad = Some(("C19.server", format!("{} Server headers", servers)));
                    } else if let (Some(w), false) = (wall, sc.knobs.racy_time) {
                        if dates[0].1 != imf_fixdate(w) {
                            bad = Some(("C19.date", format!("Date on the wire {:?}, the virtual wall clock when the request was dropped reads {:?}", dates[0].1, imf_fixdate(w))));
                        }
                    }
                    if let Some((clause, text)) = bad {
                        v.violations.push(Violation { clause: clause.into(), signature: "automatic response for a dropped request".into(), detail: format!("{} response #{} (status {}, request dropped or its handler panicked): {}; headers on the wire: {:?}", sc.note, k, m.status, text, m.headers) });
                    }
                    continue;
                }
            };
            let mut push = |clause: &str, sig: &str, text: String| {
                v.violations.push(Violation { clause: clause.into(), signature: sig.into(), detail: format!("{} response #{} (headers given {:?}, ctor {:?}): {}; headers on the wire: {:?}", sc.note, k, spec.headers, spec.ctor, text, m.headers) });
            };
            // application headers in the order they take effect: constructor list first (Ctor::New), then the rest
            let mut given: Vec<(String, String)> = vec![];
            if spec.ctor == Ctor::FromString {
                given.push(("Content-Type".into(), "text/plain; charset=UTF-8".into()));
            }
            for h in spec.headers.iter().filter(|h| h.2 == 0 && spec.ctor == Ctor::New) {
                given.push((h.0.clone(), h.1.clone()));
            }
            for h in spec.headers.iter().filter(|h| !(h.2 == 0 && spec.ctor == Ctor::New)) {
                given.push((h.0.clone(), h.1.clone()));
            }
            let is = |n: &str, x: &str| n.eq_ignore_ascii_case(x);
            // protected names: the application's values never appear
            for (n, val) in &given {
                if PROTECTED.iter().any(|p| is(n, p)) && m.headers.iter().any(|h| &h.1 == val) {
                    push("C19.protected", "a protected header supplied by the application was sent", format!("the application-supplied {}: {} was sent", n, val));
                }
            }
            // Content-Length: never duplicated, consistent with the body
            let cls: Vec<&(String, String)> = m.headers.iter().filter(|h| is(&h.0, "Content-Length")).collect();
            if cls.len() > 1 {
                push("C19.content_length", "Content-Length sent more than once", format!("{} Content-Length headers", cls.len()));
            }
            // Content-Type: at most one, the last supplied
            let cts_given: Vec<&(String, String)> = given.iter().filter(|h| is(&h.0, "Content-Type")).collect();
            let cts: Vec<&(String, String)> = m.headers.iter().filter(|h| is(&h.0, "Content-Type")).collect();
            if cts.len() > 1 {
                push("C19.content_type", "more than one Content-Type sent", format!("{} Content-Type headers", cts.len()));
            } else if let Some(last) = cts_given.last() {
                if cts.first().map(|c| &c.1) != Some(&last.1) {
                    push("C19.content_type", "Content-Type is not the last one supplied", format!("expected Content-Type {:?}", last.1));
                }
            } else if !cts.is_empty() {
                push("C19.content_type", "a Content-Type nobody supplied was sent", String::new());
            }
            // ordinary application headers: once each, in order
            let ordinary: Vec<&(String, String)> = given
                .iter()
                .filter(|h| !PROTECTED.iter().any(|p| is(&h.0, p)) && !is(&h.0, "Content-Length") && !is(&h.0, "Content-Type"))
                .collect();
            let mut pos = 0usize;
            for h in &ordinary {
                let count = m.headers.iter().filter(|w| is(&w.0, &h.0) && w.1 == h.1).count();
                let given_n = ordinary.iter().filter(|w| is(&w.0, &h.0) && w.1 == h.1).count();
                if count != given_n {
                    push("C19.once_in_order", "an application header is not sent exactly once", format!("{}: {} appears {} times, supplied {} times", h.0, h.1, count, given_n));
                    break;
                }
                match m.headers.iter().skip(pos).position(|w| is(&w.0, &h.0) && w.1 == h.1) {
                    Some(i) => pos += i + 1,
                    None => {
                        push("C19.once_in_order", "application headers are not in the order given", format!("{}: {} is out of order", h.0, h.1));
                        break;
                    }
                }
            }
            // Date
            let dates: Vec<&(String, String)> = m.headers.iter().filter(|h| is(&h.0, "Date")).collect();
            let app_dates = ordinary.iter().filter(|h| is(&h.0, "Date")).count();
            let app_date = app_dates > 0;
            if (app_dates == 0 && dates.len() != 1) || (app_dates > 0 && dates.len() != app_dates) {
                push("C19.date", "not exactly one Date header", format!("{} Date headers", dates.len()));
            } else if !app_date && !sc.knobs.racy_time {
                let wall = out.obs.events.iter().find_map(|e| match e {
                    Ev::FinishStart { id: i, wall, .. } if *i == id => Some(*wall),
                    _ => None,
                });
                if let Some(w) = wall {
                    let want = imf_fixdate(w);
                    if dates[0].1 != want {
                        push("C19.date", "Date is not the current (virtual) time as an IMF-fixdate", format!("Date on the wire {:?}, the virtual wall clock at the respond call reads {:?} ({} s)", dates[0].1, want, w));
                    }
                }
            }
            // Server
            let servers = m.headers.iter().filter(|h| is(&h.0, "Server")).count();
            let app_servers = ordinary.iter().filter(|h| is(&h.0, "Server")).count();
            if (app_servers == 0 && servers != 1) || (app_servers > 0 && servers != app_servers) {
                push("C19.server", "wrong number of Server headers", format!("{} Server headers on the wire, {} supplied", servers, app_servers));
            }
            // constructors declare the byte length
            let want_body = match &spec.replace_data {
                Some((d, _)) => d.0.clone(),
                None => spec.body.0.clone(),
            };
            if m.body != want_body {
                push("C19.byte_length", "body on the wire differs from the data given to the constructor", format!("{} bytes on the wire, {} given", m.body.len(), want_body.len()));
            }
        }
        v.nontrivial = sc.note.contains("special=true");
        v.tags.push(format!("base={}", if sc.knobs.wall_base_secs < 100 { "epoch" } else if sc.knobs.wall_base_secs > 4_000_000_000 { "far_future" } else { "other" }));
        v
    }
}
