//! C09 — message boundaries hold whether or not the application consumes the body.
//! C11 — pipelined requests are read ahead without waiting for earlier answers.
//! C18 — 100 Continue is sent exactly when the application first asks for the body.

use super::conv::{compare, Disc};
use super::gen::*;
use super::*;
use crate::engine::{Ev, RecvRes};

pub struct C09c;
pub static C09: C09c = C09c;
pub struct C11c;
pub static C11: C11c = C11c;
pub struct C18c;
pub static C18: C18c = C18c;

fn knobs(rng: &mut Rng, sc: &mut Scenario) {
    let mut k = rng.sub("knobs");
    sc.knobs.strategy = strategy(&mut k);
    sc.knobs.spurious = k.chance(1, 10);
}

fn seg_of(g: &mut Rng) -> Seg {
    match g.below(6) {
        0 | 1 => Seg::Whole,
        2 => Seg::PerMessage,
        3 => Seg::Random(4),
        4 => Seg::Fixed(*g.pick(&[1usize, 3, 100, 1024])),
        _ => Seg::Fixed(*g.pick(&[512usize, 1023, 1025, 4096])),
    }
}

/// A request with a body of the given kind: 0 = Content-Length, 1 = chunked
fn body_request(g: &mut Rng, id: &str, len: usize, chunked: bool) -> (Req, Vec<u8>) {
    let payload = if g.chance(1, 2) { requestlike_body(len) } else { token_body(&format!("q{}", id), len) };
    let mut rq = Req::get(id);
    rq.method = "POST".into();
    if chunked {
        let name = *g.pick(&["Transfer-Encoding", "transfer-encoding", "TRANSFER-ENCODING"]);
        rq.headers.push((name.into(), "chunked".into()));
        let sizes = chunk_sizes(g);
        rq.body = chunk_encode_fancy(&payload, &sizes, g);
    } else {
        let name = *g.pick(&["Content-Length", "content-length", "CONTENT-LENGTH"]);
        rq.headers.push((name.into(), payload.len().to_string()));
        rq.body = payload.clone();
    }
    (rq, payload)
}

fn consume_plan(g: &mut Rng, len: usize) -> BodyPlan {
    match g.below(10) {
        9 => BodyPlan::Sizes(vec![0]),
        0 | 1 => BodyPlan::None,
        2 => BodyPlan::Touch(1),
        3 => BodyPlan::Exactly(1),
        4 => BodyPlan::Exactly(len.saturating_sub(1).max(1)),
        5 => BodyPlan::Exactly(len.max(1)),
        6 => BodyPlan::Exactly(g.usize(1, len.max(1))),
        7 => BodyPlan::Sizes((0..g.usize(1, 4)).map(|_| g.usize(1, (len / 2).max(1))).collect()),
        _ => BodyPlan::ToEof { buf: *g.pick(&[1usize, 64, 1024, 8192]) },
    }
}

impl Campaign for C09c {
    fn id(&self) -> &'static str {
        "C09"
    }
    fn rule(&self) -> &'static str {
        "seeded scenarios: a request with a body (Content-Length 1/1024/1025/5000/70000 or chunked with generated chunk sizes, hex case, leading zeros, extensions) whose handler consumes a generated prefix (nothing, 1 byte, len-1, len, random pieces, to EOF) and finishes by respond / drop / raw writer, at position 0..2 of a pipeline, followed by 1-3 marker requests; generated segmentation (cuts inside chunk-size lines and at the body end included); non-trivial = the body was not read to its end; distinct = interleaving fingerprint"
    }
    fn runs(&self, tier: Tier) -> u64 {
        match tier {
            Tier::Quick => 25_000,
            Tier::Thorough => 800_000,
        }
    }
    fn generate(&self, rng: &mut Rng, index: u64, tier: Tier) -> Scenario {
        if index % 5 == 4 {
            return super::universal::gen_universal(rng, index, false);
        }
        let mut sc = Scenario::new();
        knobs(rng, &mut sc);
        let mut g = rng.sub("scenario");
        let before = g.usize(0, 2);
        let after = g.usize(1, 3);
        let mut msgs = vec![];
        let mut kind = String::new();
        for r in 0..before + 1 + after {
            let id = format!("c0r{}", r);
            if r == before {
                let chunked = index % 2 == 1;
                let lens: &[usize] = if tier == Tier::Thorough { &[1, 5, 1024, 1025, 5000, 65536 + 1024, 65537 + 1025, 70000, 200_000] } else { &[1, 5, 1024, 1025, 5000, 20000, 65537 + 1025, 140_000] };
                let len = *g.pick(lens);
                let (mut rq, _) = body_request(&mut g, &id, len, chunked);
                if g.chance(1, 4) {
                    // the client announces Expect: 100-continue but sends the body without waiting
                    rq.headers.push(("Expect".into(), "100-continue".into()));
                }
                msgs.push(rq.bytes());
                let finish = match g.below(4) {
                    0 | 1 => Finish::Respond(RespSpec::simple(200, token_body(&id, 10))),
                    2 => Finish::Drop,
                    _ => Finish::Writer { parts: vec![B(literal_response(200, &token_body(&id, 10)))], flush: true },
                };
                sc.programs.insert(id, Program { delay: 0, after: vec![], body: consume_plan(&mut g, len), delay2: 0, finish });
                kind = format!("{} len={}", if chunked { "chunked" } else { "content-length" }, len);
            } else {
                let mut rq = Req::get(&id);
                if g.chance(1, 5) {
                    rq = rq.with_body(token_body("m", *g.pick(&[1usize, 1024, 1025])));
                }
                msgs.push(spice(&mut g, rq, true, true).bytes());
                sc.programs.insert(id.clone(), Program::respond(200, token_body(&id, 10)));
            }
        }
        let seg = seg_of(&mut g);
        let mut c = ConnScript { steps: segment(&msgs, seg, *g.pick(&[0u64, 0, MS]), &mut g), ..Default::default() };
        // the client may hold the body back until the server has said something (an interim or the
        // final response): legal whenever the server does not need the body first, i.e. the body is
        // streamed and the handler either does not read it or the request expects 100-continue
        let body_msg = &msgs[before];
        let body_id = format!("c0r{}", before);
        let reqm = crate::httpmodel::parse_requests(body_msg);
        let streams = reqm.first().map(|m| m.streams_body()).unwrap_or(false);
        let expects = reqm.first().map(|m| m.expects_continue).unwrap_or(false);
        let reads = sc.programs.get(&body_id).map(|p| !matches!(p.body, BodyPlan::None)).unwrap_or(false);
        if streams && (!reads || expects) && g.chance(1, 3) {
            let head_len = reqm[0].head_end;
            let before_bytes: Vec<u8> = msgs[..before].concat();
            let mut steps = vec![];
            let mut first = before_bytes;
            first.extend_from_slice(&body_msg[..head_len]);
            steps.push(ClientStep::Send(B(first)));
            steps.push(ClientStep::AwaitAfterFinals(before));
            let mut rest = body_msg[head_len..].to_vec();
            rest.extend_from_slice(&msgs[before + 1..].concat());
            steps.push(ClientStep::Send(B(rest)));
            c.steps = steps;
            kind.push_str(" withheld");
        }
        c.coalesce = g.chance(1, 2);
        sc.conns.push(c);
        sc.receivers = loop_receivers(1, if g.chance(1, 2) { Dispatch::Spawn } else { Dispatch::Inline });
        sc.note = format!("C09 index {} body={} at {}", index, kind, before);
        sc
    }
    fn check(&self, sc: &Scenario, out: &RunOut) -> Verdict {
        if sc.note.starts_with("universal") {
            return super::universal::universal_verdict("C09", sc, out);
        }
        let mut v = Verdict::default();
        let (e, discs) = compare(sc, out, 0);
        let main = snap(out, "main").unwrap();
        let kind = if sc.note.contains("chunked") { "chunked body" } else { "content-length body" };
        // the body-bearing request under test is the one at the position recorded in the note
        let at: usize = sc.note.rsplit(" at ").next().and_then(|s| s.trim().parse().ok()).unwrap_or(0);
        let body_id = format!("c0r{}", at);
        let plan = sc.programs.get(&body_id).map(|p| format!("{:?}", p.body)).unwrap_or_default();
        let read_all = out.obs.events.iter().any(|ev| matches!(ev, Ev::BodyRead { id, eof: true, .. } if *id == body_id));
        let fin_kind = match sc.programs.get(&body_id).map(|p| &p.finish) {
            Some(Finish::Writer { .. }) => "raw writer",
            Some(Finish::Drop) => "drop",
            _ => "respond",
        };
        let kind_owned = if sc.note.contains("withheld") {
            format!("{}, held back by the client until the server has answered, request finished by {}", kind, fin_kind)
        } else {
            kind.to_string()
        };
        let kind = kind_owned.as_str();
        for d in discs {
            let text = match &d {
                Disc::Phantom(id) | Disc::Forbidden(id) => format!("something that is not one of the client's requests was delivered ({}): unread body bytes were interpreted as a request", id),
                Disc::NotDelivered(id) => format!("marker request {} was not delivered", id),
                Disc::WrongResponse { k, got, want, .. } => format!("response #{} has status {}, expected {}", k, got, want),
                Disc::MissingResponse { k, want, .. } => format!("response #{} (status {}) never arrived", k, want),
                Disc::ExtraResponse { k, got } => format!("extra response #{} status {}", k, got),
                Disc::UnexpectedEof => "the server closed the connection".to_string(),
                Disc::MissingEof => continue,
                Disc::Unparseable(s) => {
                    v.inconclusive = Some(s.clone());
                    continue;
                }
            };
            v.violations.push(Violation {
                clause: "C09.boundary".into(),
                signature: format!("{} {}", kind, if read_all { "read to its end" } else { "not read to its end" }),
                detail: format!("{} (body plan {}): {}. blocked: {}", sc.note, plan, text, describe_blocked(main)),
            });
            break;
        }
        // the requests after the body arrive with exactly their own heads
        if v.violations.is_empty() {
            for m in e.msgs.iter().filter(|m| m.class == crate::httpmodel::Class::Valid) {
                let id = m.id.clone().unwrap_or_default();
                let head = out.obs.events.iter().find_map(|ev| match ev {
                    Ev::Delivered { id: i, head, .. } if *i == id => Some(head.clone()),
                    _ => None,
                });
                if let Some(h) = head {
                    let d = head_diffs(&h, m);
                    if !d.is_empty() {
                        v.violations.push(Violation {
                            clause: "C09.boundary".into(),
                            signature: format!("{} {}", kind, if read_all { "read to its end" } else { "not read to its end" }),
                            detail: format!("{} (body plan {}): request {} was delivered with a head that is not the one sent: {} (bytes of the preceding body were taken for part of it)", sc.note, plan, id, d.join("; ")),
                        });
                        break;
                    }
                }
            }
        }
        v.nontrivial = !read_all;
        v.tags.push(kind.replace(' ', "_"));
        v
    }
}

// ---------------------------------------------------------------------------

impl Campaign for C11c {
    fn id(&self) -> &'static str {
        "C11"
    }
    fn rule(&self) -> &'static str {
        "seeded scenarios: pipelines of 2..8 requests with bodies from {none, 1, 1024, 1025, 5000, chunked small, chunked large}; (A) all bodies absent or <= 1024 bytes and the application collects all n requests before answering any (one thread calling recv, one blocked thread per request, or one thread polling with try_recv around 0-2 unblock calls); (B) a streamed body is read to its end (or the request answered/dropped unread, also by a panicking handler) and the request kept for 1 virtual second while the successor must already be obtainable; non-trivial = (A) n >= 3 or a 1024-byte body present, (B) always; distinct = interleaving fingerprint"
    }
    fn runs(&self, tier: Tier) -> u64 {
        match tier {
            Tier::Quick => 40_000,
            Tier::Thorough => 300_000,
        }
    }
    fn generate(&self, rng: &mut Rng, index: u64, _tier: Tier) -> Scenario {
        let mut sc = Scenario::new();
        knobs(rng, &mut sc);
        let mut g = rng.sub("scenario");
        let sub_b = index % 2 == 1;
        let sub_c = index % 6 == 4;
        let sub_d = index % 6 == 2;
        let n = g.usize(2, 8);
        let mut msgs = vec![];
        let streamed_at = if sub_b { g.usize(0, n - 2) } else { usize::MAX };
        let mut kind = String::new();
        for r in 0..n {
            let id = format!("c0r{}", r);
            if r == streamed_at {
                let chunked = g.chance(1, 2);
                let len = if chunked { *g.pick(&[5usize, 3000, 20000]) } else { *g.pick(&[1025usize, 5000, 20000]) };
                let (rq, _) = body_request(&mut g, &id, len, chunked);
                msgs.push(rq.bytes());
                let mode = g.below(4);
                let p = match mode {
                    3 => Program { delay: 0, after: vec![], body: BodyPlan::None, delay2: 0, finish: Finish::Panic },
                    0 => Program { delay: 0, after: vec![], body: BodyPlan::ToEof { buf: *g.pick(&[1usize, 100, 4096]) }, delay2: SEC, finish: Finish::Respond(RespSpec::simple(200, token_body(&id, 10))) },
                    1 => Program { delay: 0, after: vec![], body: BodyPlan::None, delay2: 0, finish: Finish::Respond(RespSpec::simple(200, token_body(&id, 10))) },
                    _ => Program { delay: 0, after: vec![], body: BodyPlan::None, delay2: 0, finish: Finish::Drop },
                };
                sc.programs.insert(id, p);
                kind = format!("streamed {} len={} mode={}", if chunked { "chunked" } else { "content-length" }, len, mode);
            } else {
                let mut rq = Req::get(&id);
                match g.below(4) {
                    0 => rq = rq.with_body(token_body("b", 1)),
                    1 => rq = rq.with_body(token_body("b", 1024)),
                    2 => rq = rq.with_body(token_body("b", g.usize(2, 1023))),
                    _ => {}
                }
                msgs.push(rq.bytes());
                sc.programs.insert(id.clone(), Program::respond(200, token_body(&id, 10)));
            }
        }
        let seg = seg_of(&mut g);
        let mut c = ConnScript { steps: segment(&msgs, seg, *g.pick(&[0u64, 0, MS]), &mut g), ..Default::default() };
        c.coalesce = g.chance(1, 2);
        sc.conns.push(c);
        if sub_b {
            sc.receivers = loop_receivers(1, Dispatch::Spawn);
        } else if sub_c {
            // one application thread per request, each blocked in recv and then holding its request
            // for a virtual second before answering: every request must be obtained while none is answered
            for p in sc.programs.values_mut() {
                p.delay = SEC;
            }
            sc.receivers = (0..n).map(|_| Receiver { start_at: 0, calls: vec![RecvCall::Recv], dispatch: Dispatch::Inline }).collect();
        } else if sub_d {
            // the application collects by polling: try_recv once a millisecond, starting after the
            // client has sent everything, more often than there are requests and unblock calls
            sc.knobs.racy_time = false;
            let u = g.usize(0, 2);
            let mut ts: Vec<u64> = (0..u).map(|_| *g.pick(&[0u64, MS / 2, 2 * MS])).collect();
            ts.sort();
            for t in ts {
                sc.driver.push(DriverStep::SleepUntil(t));
                sc.driver.push(DriverStep::Unblock(1));
            }
            let sending = sc.conns[0].steps.iter().map(|s| if let ClientStep::Pause(p) = s { *p } else { 0 }).sum::<u64>();
            let mut calls = vec![];
            for _ in 0..g.usize(0, 3) {
                calls.push(RecvCall::TryRecv);
                calls.push(RecvCall::Sleep(MS / 2));
            }
            calls.push(RecvCall::Sleep(sending + SEC));
            for _ in 0..n + u + 2 {
                calls.push(RecvCall::TryRecv);
                calls.push(RecvCall::Sleep(MS));
            }
            sc.receivers = vec![Receiver { start_at: 0, calls, dispatch: Dispatch::Hold(n) }];
        } else {
            sc.receivers = vec![Receiver { start_at: 0, calls: vec![RecvCall::Recv; n], dispatch: Dispatch::Hold(n) }];
        }
        sc.note = format!("C11 index {} sub {} n={} {}", index, if sub_b { "B" } else if sub_c { "A (one thread per request)" } else if sub_d { "A (polling collector)" } else { "A" }, n, kind);
        sc
    }
    fn check(&self, sc: &Scenario, out: &RunOut) -> Verdict {
        let mut v = Verdict::default();
        let main = snap(out, "main").unwrap();
        let reqs = conn_requests(sc, 0);
        let got: Vec<(String, u64, u64)> = out
            .obs
            .events
            .iter()
            .filter_map(|e| match e {
                Ev::RecvCall { res: RecvRes::Got(id), seq1, t1, .. } if *seq1 <= main.seq => Some((id.clone(), *seq1, *t1)),
                _ => None,
            })
            .collect();
        if sc.note.contains("sub A") {
            let missing: Vec<String> = reqs.iter().filter_map(|r| r.id.clone()).filter(|id| !got.iter().any(|g| &g.0 == id)).collect();
            if !missing.is_empty() {
                v.violations.push(Violation {
                    clause: "C11.read_ahead".into(),
                    signature: "a pipeline of small requests is not fully available before the first answer".into(),
                    detail: format!(
                        "{}: the application holds {} requests unanswered and waits for the rest; {:?} never became available (body sizes {:?}). blocked: {}",
                        sc.note, got.len(), missing, reqs.iter().map(|r| r.body.len()).collect::<Vec<_>>(), describe_blocked(main)
                    ),
                });
            }
            if sc.note.contains("one thread per request") && !sc.knobs.racy_time {
                // every request is held for one virtual second: all must have been obtained before that
                let late: Vec<&(String, u64, u64)> = got.iter().filter(|g| g.2 >= SEC).collect();
                // only meaningful when the client had sent everything before the first answer was due
                let t_sent = out.obs.events.iter().find_map(|e| match e {
                    Ev::Client { what, t, .. } if what == "script_done" => Some(*t),
                    _ => None,
                }).unwrap_or(u64::MAX);
                if !late.is_empty() && missing.is_empty() && t_sent < SEC {
                    v.violations.push(Violation {
                        clause: "C11.read_ahead".into(),
                        signature: "a request only became available after an earlier one had been answered".into(),
                        detail: format!("{}: each application thread holds its request for 1 s; {:?} were obtained only at t >= 1 s", sc.note, late),
                    });
                }
            }
            v.nontrivial = reqs.len() >= 3 || reqs.iter().any(|r| r.body.len() == 1024);
            v.tags.push("sub=A".into());
        } else {
            // the streamed request S and its successor
            if let Some(pos) = reqs.iter().position(|r| r.streams_body()) {
                let s_id = reqs[pos].id.clone().unwrap_or_default();
                let succ = reqs.get(pos + 1).and_then(|r| r.id.clone());
                let fin_t = out.obs.events.iter().find_map(|e| match e {
                    Ev::FinishStart { id, t, .. } if *id == s_id => Some(*t),
                    _ => None,
                });
                let body_done = out.obs.events.iter().find_map(|e| match e {
                    Ev::BodyRead { id, eof: true, .. } if *id == s_id => Some(true),
                    _ => None,
                });
                let t_sent = out.obs.events.iter().find_map(|e| match e {
                    Ev::Client { what, t, .. } if what == "script_done" => Some(*t),
                    _ => None,
                }).unwrap_or(u64::MAX);
                if let Some(succ) = succ {
                    let got_succ = got.iter().find(|g| g.0 == succ);
                    match (got_succ, fin_t) {
                        (None, _) => v.violations.push(Violation {
                            clause: "C11.release".into(),
                            signature: "the successor of a streamed-body request never becomes available".into(),
                            detail: format!("{}: request {} had its body read to the end / was answered or dropped, yet its successor {} was never handed out. blocked: {}", sc.note, s_id, succ, describe_blocked(main)),
                        }),
                        (Some(g), Some(ft)) if body_done == Some(true) && !sc.knobs.racy_time && g.2 >= ft && t_sent < ft => {
                            v.violations.push(Violation {
                                clause: "C11.release".into(),
                                signature: "the successor is withheld until the streamed-body request is answered although its body was read to the end".into(),
                                detail: format!("{}: body of {} was read to end-of-stream and the request kept unanswered until t={} ns; the client had sent everything by t={} ns, yet successor {} only became available at t={} ns", sc.note, s_id, ft, t_sent, succ, g.2),
                            })
                        }
                        _ => {}
                    }
                }
            }
            v.nontrivial = true;
            v.tags.push("sub=B".into());
        }
        v
    }
}

// ---------------------------------------------------------------------------

impl Campaign for C18c {
    fn id(&self) -> &'static str {
        "C18"
    }
    fn rule(&self) -> &'static str {
        "seeded scenarios: a request with or without Expect: 100-continue (any letter case), body length {0, 5, 1024, 1025, 5000}, handler program {answer without reading, as_reader once, three times, partial read, read to EOF} finished by respond / raw writer / drop, a client that withholds the body until it sees the interim response or sends it regardless, optionally pipelined after/before ordinary requests, or followed by a second expecting request handled on another thread that answers while the first is still busy (the final response after an interim one must be the same request's); non-trivial = the expectation is present; distinct = interleaving fingerprint"
    }
    fn runs(&self, tier: Tier) -> u64 {
        match tier {
            Tier::Quick => 120_000,
            Tier::Thorough => 4_000_000,
        }
    }
    fn generate(&self, rng: &mut Rng, index: u64, _tier: Tier) -> Scenario {
        let mut sc = Scenario::new();
        knobs(rng, &mut sc);
        let mut g = rng.sub("scenario");
        let before = g.usize(0, 1);
        let after = g.usize(0, 1);
        let expects = index % 4 != 3;
        let followed_by_expecting = expects && g.chance(1, 4);
        let len = *g.pick(&[0usize, 5, 1024, 1025, 5000]);
        let waits = expects && g.chance(1, 2);
        let mut steps = vec![];
        for r in 0..before + 1 + after {
            let id = format!("c0r{}", r);
            if r == before {
                let payload = token_body("qx", len);
                let mut rq = Req::get(&id);
                rq.method = "POST".into();
                if expects {
                    let name = *g.pick(&["Expect", "expect", "EXPECT"]);
                    let val = *g.pick(&["100-continue", "100-Continue", "100-CONTINUE"]);
                    rq.headers.push((name.into(), val.into()));
                }
                // the body is framed by Content-Length or (one run in three) by the chunked coding
                let chunked = len > 0 && g.chance(1, 3);
                let payload = if chunked {
                    rq.headers.push(("Transfer-Encoding".into(), "chunked".into()));
                    chunk_encode(&payload, &[*g.pick(&[1usize, 100, 4096])])
                } else {
                    rq.headers.push(("Content-Length".into(), len.to_string()));
                    payload
                };
                let head = rq.bytes();
                let plan = match g.below(6) {
                    0 | 1 => BodyPlan::None,
                    2 => BodyPlan::Touch(1),
                    3 => BodyPlan::Touch(3),
                    4 => BodyPlan::Sizes(vec![(len / 2).max(1)]),
                    _ => BodyPlan::ToEof { buf: *g.pick(&[1usize, 512, 8192]) },
                };
                // a withheld body is only sent after the interim response; never wait for what the program will not ask for
                let asks = plan != BodyPlan::None;
                steps.push(ClientStep::Send(B(head)));
                if waits && asks {
                    steps.push(ClientStep::AwaitBytes { pattern: B::s(" 100 "), count: 1 });
                } else if g.chance(1, 2) {
                    steps.push(ClientStep::Pause(MS));
                }
                if !payload.is_empty() && (asks || !waits) {
                    steps.push(ClientStep::Send(B(payload)));
                }
                // answered through respond (mostly), through the raw writer, or not at all (automatic 500)
                let finish = match g.below(6) {
                    0 => Finish::Writer { parts: split_parts(&literal_response(200, &token_body(&id, 10)), g.usize(1, 3), &mut g), flush: true },
                    1 => Finish::Drop,
                    _ => Finish::Respond(RespSpec::simple(*g.pick(&[200u16, 200, 403]), token_body(&id, 10))),
                };
                sc.programs.insert(id.clone(), Program { delay: 0, after: vec![], body: plan, delay2: 0, finish });
                if waits && !asks && len > 0 {
                    // the body is never sent: nothing can follow on this connection
                    break;
                }
            } else if followed_by_expecting && r == before + 1 {
                // a second expecting request without a body right behind the first: its handler asks
                // for the body (interim response) and answers while the first one is still busy
                let rq = Req::get(&id).header("Expect", "100-continue").header("Content-Length", "0");
                steps.push(ClientStep::Send(B(rq.bytes())));
                sc.programs.insert(id.clone(), Program { delay: 0, after: vec![], body: BodyPlan::Touch(1), delay2: 0, finish: Finish::Respond(RespSpec::simple(200, token_body(&id, 10))) });
                if let Some(p) = sc.programs.get_mut(&format!("c0r{}", before)) {
                    p.delay2 = 300 * MS;
                }
            } else {
                steps.push(ClientStep::Send(B(Req::get(&id).bytes())));
                sc.programs.insert(id.clone(), Program::respond(200, token_body(&id, 10)));
            }
        }
        sc.conns.push(ConnScript { steps, coalesce: g.chance(1, 2), ..Default::default() });
        sc.receivers = loop_receivers(1, if followed_by_expecting || g.chance(1, 2) { Dispatch::Spawn } else { Dispatch::Inline });
        sc.note = format!("C18 index {} expects={} len={} waits={} at {}", index, expects, len, waits, before);
        sc
    }
    fn check(&self, sc: &Scenario, out: &RunOut) -> Verdict {
        let mut v = Verdict::default();
        let main = snap(out, "main").unwrap();
        let reqs = conn_requests(sc, 0);
        let co = &out.obs.conns[0];
        let p = crate::httpmodel::parse_responses(&co.received.0, &|_| false);
        if p.error.is_some() {
            v.inconclusive = p.error.clone();
            return v;
        }
        // split the wire into per-request groups: interim responses followed by one final
        let mut groups: Vec<(usize, Option<u16>, usize)> = vec![]; // (#100, final status, offset of first 100)
        let mut final_bodies: Vec<Vec<u8>> = vec![];
        let mut n100 = 0;
        let mut first100 = 0;
        for m in &p.msgs {
            if !m.complete {
                break;
            }
            if m.status == 100 {
                if n100 == 0 {
                    first100 = m.start;
                }
                n100 += 1;
            } else if !(100..200).contains(&m.status) || m.status == 101 {
                groups.push((n100, Some(m.status), first100));
                final_bodies.push(m.body.clone());
                n100 = 0;
            }
        }
        if n100 > 0 {
            groups.push((n100, None, first100));
        }
        let target = sc.note.split(" at ").nth(1).and_then(|s| s.trim().parse::<usize>().ok()).unwrap_or(0);
        for (k, r) in reqs.iter().enumerate() {
            let id = r.id.clone().unwrap_or_default();
            let prog = sc.programs.get(&id);
            let asks = prog.map(|p| p.body != BodyPlan::None).unwrap_or(false);
            let want = if r.expects_continue && asks { 1 } else { 0 };
            let g = match groups.get(k) {
                Some(g) => g,
                None => {
                    if k == target && r.expects_continue {
                        // two-party deadlock: the client waits for 100 while the application waits for the body
                        let client_waiting = main.threads.iter().any(|t| t.0 == "client" && t.1.contains("ClientWait"));
                        let app_reading = main.threads.iter().any(|t| (t.0 == "handler" || t.0 == "receiver") && t.1.contains("NetRead"));
                        let was_delivered = delivered(&out.obs).iter().any(|d| d.0 == id);
                        if client_waiting && !was_delivered {
                            v.violations.push(Violation {
                                clause: "C18.continue_sent".into(),
                                signature: "an expecting request is not delivered until its body arrives, while the client waits for 100 Continue".into(),
                                detail: format!("{}: the client sent the head with Expect: 100-continue and waits for the interim response; the request was never handed to the application (the server waits for the body first). blocked: {}", sc.note, describe_blocked(main)),
                            });
                        } else if client_waiting && app_reading && asks {
                            v.violations.push(Violation {
                                clause: "C18.continue_sent".into(),
                                signature: "client waits for 100 Continue while the application waits for the body".into(),
                                detail: format!("{}: the application asked for the body but no interim response reached the client; both sides wait for each other. blocked: {}", sc.note, describe_blocked(main)),
                            });
                        }
                    }
                    break;
                }
            };
            // the final response that closes this group must be the one for this request: an interim
            // response of one request must never be followed by another request's final response
            if let (Some(Finish::Respond(spec)), Some(fb)) = (prog.map(|p| &p.finish), final_bodies.get(k)) {
                if g.1.is_some() && !r.is_head && *fb != spec.body.0 {
                    v.violations.push(Violation {
                        clause: "C18.before_final".into(),
                        signature: "the final response following the interim response belongs to another request".into(),
                        detail: format!("{}: response group #{} ({} interim, final {:?}) carries the body of another request ({:?}...): the interim and final responses of pipelined requests are mixed", sc.note, k, g.0, g.1, String::from_utf8_lossy(&fb[..fb.len().min(16)])),
                    });
                    break;
                }
            }
            if g.0 != want {
                v.violations.push(Violation {
                    clause: "C18.exactly_once".into(),
                    signature: format!("{} interim responses where {} are due", g.0, want),
                    detail: format!("{}: request {} (expects_continue={}, program asks for the body: {}) got {} '100 Continue' responses before its final response {:?}; {} are due", sc.note, id, r.expects_continue, asks, g.0, g.1, want),
                });
                break;
            }
            if want == 1 {
                // not before the application asked
                let asked = out.obs.events.iter().find_map(|e| match e {
                    Ev::AsReader { id: i, seq } if *i == id => Some(*seq),
                    _ => None,
                });
                let wrote = co.marks.iter().find(|m| m.0 <= g.2 && g.2 < m.0 + m.1).map(|m| m.2);
                if let (Some(a), Some(w)) = (asked, wrote) {
                    if w < a {
                        v.violations.push(Violation {
                            clause: "C18.not_before_asked".into(),
                            signature: "interim response written before the application asked for the body".into(),
                            detail: format!("{}: '100 Continue' for {} was written at event {} but the application first asked for the body at event {}", sc.note, id, w, a),
                        });
                    }
                }
            }
            // the body read equals the body sent
            if k == target {
                for e in &out.obs.events {
                    if let Ev::BodyRead { id: i, data, eof, err, .. } = e {
                        if *i == id && *eof && err.is_none() && data.0 != r.body && r.body_complete {
                            v.violations.push(Violation {
                                clause: "C18.body_readable".into(),
                                signature: "body read differs from body sent".into(),
                                detail: format!("{}: read {} bytes, sent {}", sc.note, data.0.len(), r.body.len()),
                            });
                        }
                    }
                }
            }
        }
        v.nontrivial = sc.note.contains("expects=true");
        v.tags.push(format!("expects={}", sc.note.contains("expects=true")));
        v.tags.push(format!("waits={}", sc.note.contains("waits=true")));
        v
    }
}
