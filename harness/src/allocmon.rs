//! Counting global allocator: the largest single request and the live-bytes peak
//! while a run is in progress; requests above LIMIT are refused (allocation failure
//! is injected), which makes `handle_alloc_error` abort the process.

use std::alloc::{GlobalAlloc, Layout, System};
use std::sync::atomic::{AtomicUsize, Ordering::Relaxed};

pub struct Counting;

pub const LIMIT: usize = 1 << 30;

static MAX_SINGLE: AtomicUsize = AtomicUsize::new(0);
static LIVE: AtomicUsize = AtomicUsize::new(0);
static PEAK: AtomicUsize = AtomicUsize::new(0);

fn note(size: usize) {
    MAX_SINGLE.fetch_max(size, Relaxed);
    let live = LIVE.fetch_add(size, Relaxed) + size;
    PEAK.fetch_max(live, Relaxed);
}

unsafe impl GlobalAlloc for Counting {
    unsafe fn alloc(&self, l: Layout) -> *mut u8 {
        if l.size() > LIMIT {
            MAX_SINGLE.fetch_max(l.size(), Relaxed);
            return std::ptr::null_mut();
        }
        note(l.size());
        System.alloc(l)
    }
    unsafe fn alloc_zeroed(&self, l: Layout) -> *mut u8 {
        if l.size() > LIMIT {
            MAX_SINGLE.fetch_max(l.size(), Relaxed);
            return std::ptr::null_mut();
        }
        note(l.size());
        System.alloc_zeroed(l)
    }
    unsafe fn dealloc(&self, p: *mut u8, l: Layout) {
        LIVE.fetch_sub(l.size(), Relaxed);
        System.dealloc(p, l)
    }
    unsafe fn realloc(&self, p: *mut u8, l: Layout, new: usize) -> *mut u8 {
        if new > LIMIT {
            MAX_SINGLE.fetch_max(new, Relaxed);
            return std::ptr::null_mut();
        }
        if new > l.size() {
            note(new - l.size());
            MAX_SINGLE.fetch_max(new, Relaxed);
        } else {
            LIVE.fetch_sub(l.size() - new, Relaxed);
        }
        System.realloc(p, l, new)
    }
}

/// Start measuring: returns the live bytes at this moment.
pub fn begin() -> usize {
    MAX_SINGLE.store(0, Relaxed);
    let live = LIVE.load(Relaxed);
    PEAK.store(live, Relaxed);
    live
}

/// (largest single request, peak of live bytes above the level at `begin`)
pub fn end(base: usize) -> (usize, usize) {
    (MAX_SINGLE.load(Relaxed), PEAK.load(Relaxed).saturating_sub(base))
}
