//! Reference model, written from the property statements and RFC 7230 (not from
//! tiny-http's code): what a client byte stream means, and an independent
//! client-side response parser.

use serde::{Deserialize, Serialize};

#[derive(Clone, Debug, PartialEq, Eq, Serialize, Deserialize)]
pub enum Framing {
    None,
    Length(usize),
    Chunked,
    /// protocol upgrade: the body is the rest of the connection
    Upgrade,
}

#[derive(Clone, Debug, PartialEq, Eq, Serialize, Deserialize)]
pub enum Class {
    Valid,
    Reject400,
    Reject417,
    Reject505,
    /// non-ASCII head: connection closed without a response
    SilentClose,
    /// the stream ended inside the head
    Incomplete,
}

#[derive(Clone, Debug, Serialize, Deserialize)]
pub struct ReqMsg {
    pub class: Class,
    pub why: String,
    pub start: usize,
    pub head_end: usize,
    pub end: usize,
    pub method: String,
    pub target: String,
    pub version: (u8, u8),
    pub headers: Vec<(String, String)>,
    pub id: Option<String>,
    pub framing: Framing,
    pub body: Vec<u8>,
    pub body_complete: bool,
    pub expects_continue: bool,
    /// the connection ends after this request (C12)
    pub last: bool,
    pub is_head: bool,
}

impl ReqMsg {
    /// Is the body buffered before delivery (so that delivery needs the whole body)?
    pub fn buffered_body(&self) -> bool {
        matches!(self.framing, Framing::Length(n) if n > 0 && n <= 1024) && !self.expects_continue
    }
    /// Must the application be handed this request, given only the bytes in the stream?
    pub fn deliverable(&self) -> bool {
        self.class == Class::Valid && (!self.buffered_body() || self.body_complete)
    }
    /// Does this request hold back its successors until its body is consumed?
    pub fn streams_body(&self) -> bool {
        match self.framing {
            Framing::None => false,
            Framing::Length(n) => n > 0 && (n > 1024 || self.expects_continue),
            Framing::Chunked | Framing::Upgrade => true,
        }
    }
}

fn find_crlf(b: &[u8], from: usize) -> Option<usize> {
    let mut i = from;
    while i + 1 < b.len() {
        if b[i] == b'\r' && b[i + 1] == b'\n' {
            return Some(i);
        }
        i += 1;
    }
    None
}

fn trim_ows(s: &[u8]) -> &[u8] {
    let mut a = 0;
    let mut z = s.len();
    while a < z && (s[a] == b' ' || s[a] == b'\t') {
        a += 1;
    }
    while z > a && (s[z - 1] == b' ' || s[z - 1] == b'\t') {
        z -= 1;
    }
    &s[a..z]
}

fn eq_ic(a: &str, b: &str) -> bool {
    a.eq_ignore_ascii_case(b)
}

pub fn header<'a>(hs: &'a [(String, String)], name: &str) -> Option<&'a str> {
    hs.iter().find(|h| eq_ic(&h.0, name)).map(|h| h.1.as_str())
}

/// Decode a chunked body starting at `pos`. Returns (payload, end offset, complete).
pub fn decode_chunked(b: &[u8], pos: usize) -> (Vec<u8>, usize, bool) {
    let mut out = Vec::new();
    let mut i = pos;
    loop {
        let le = match find_crlf(b, i) {
            Some(e) => e,
            None => return (out, b.len(), false),
        };
        let line = &b[i..le];
        let hex_end = line
            .iter()
            .position(|&c| c == b';' || c == b' ' || c == b'\t')
            .unwrap_or(line.len());
        let hex = std::str::from_utf8(&line[..hex_end]).unwrap_or("");
        let size = match usize::from_str_radix(hex, 16) {
            Ok(s) => s,
            Err(_) => return (out, i, false),
        };
        i = le + 2;
        if size == 0 {
            // no trailers generated: expect the final CRLF
            if i + 2 <= b.len() && &b[i..i + 2] == b"\r\n" {
                return (out, i + 2, true);
            }
            return (out, b.len().min(i + 2), false);
        }
        if i + size > b.len() {
            out.extend_from_slice(&b[i..]);
            return (out, b.len(), false);
        }
        out.extend_from_slice(&b[i..i + size]);
        i += size;
        if i + 2 > b.len() {
            return (out, b.len(), false);
        }
        if &b[i..i + 2] != b"\r\n" {
            return (out, i, false);
        }
        i += 2;
    }
}

/// What the client's byte stream means, message by message.  Parsing stops after
/// a message that ends the connection or cannot be framed.
pub fn parse_requests(b: &[u8]) -> Vec<ReqMsg> {
    let mut out = Vec::new();
    let mut pos = 0usize;
    while pos < b.len() {
        let mut m = ReqMsg {
            class: Class::Valid,
            why: String::new(),
            start: pos,
            head_end: pos,
            end: pos,
            method: String::new(),
            target: String::new(),
            version: (0, 0),
            headers: vec![],
            id: None,
            framing: Framing::None,
            body: vec![],
            body_complete: true,
            expects_continue: false,
            last: false,
            is_head: false,
        };
        // collect head lines
        let mut lines: Vec<&[u8]> = Vec::new();
        let mut i = pos;
        let mut complete = false;
        while let Some(e) = find_crlf(b, i) {
            let line = &b[i..e];
            i = e + 2;
            if line.is_empty() && !lines.is_empty() {
                complete = true;
                break;
            }
            lines.push(line);
            // A malformed request line is rejected as soon as it is complete.
            if lines.len() == 1 {
                if let Some(c) = classify_request_line(line, &mut m) {
                    m.class = c;
                    m.head_end = i;
                    m.end = i;
                    out.push(m);
                    return out;
                }
            } else if let Some((c, why)) = classify_header_line(line) {
                m.class = c;
                m.why = why;
                m.head_end = i;
                m.end = i;
                // earlier lines still give the id when they parsed
                fill_headers(&lines[1..lines.len() - 1], &mut m);
                out.push(m);
                return out;
            }
        }
        if !complete {
            // non-ASCII bytes in a partial line are only detected at the line end
            m.class = Class::Incomplete;
            m.why = "stream ends inside the head".into();
            m.head_end = b.len();
            m.end = b.len();
            fill_headers(if lines.len() > 1 { &lines[1..] } else { &[] }, &mut m);
            out.push(m);
            return out;
        }
        m.head_end = i;
        fill_headers(&lines[1..], &mut m);
        m.is_head = m.method == "HEAD";
        // Expect
        if let Some(v) = header(&m.headers, "Expect") {
            if eq_ic(v, "100-continue") {
                m.expects_continue = true;
            } else {
                m.class = Class::Reject417;
                m.why = format!("Expect: {}", v);
                m.end = i;
                out.push(m);
                return out;
            }
        }
        // framing
        let conn = header(&m.headers, "Connection")
            .map(|v| v.to_ascii_lowercase())
            .unwrap_or_default();
        let te = header(&m.headers, "Transfer-Encoding").is_some();
        let cl = header(&m.headers, "Content-Length");
        if conn.contains("upgrade") {
            m.framing = Framing::Upgrade;
        } else if te {
            m.framing = Framing::Chunked;
        } else if let Some(v) = cl {
            let plain = !v.is_empty() && v.bytes().all(|c| c.is_ascii_digit());
            match (plain, v.parse::<usize>()) {
                (true, Ok(n)) => {
                    m.framing = if n == 0 {
                        Framing::None
                    } else {
                        Framing::Length(n)
                    }
                }
                _ => {
                    m.class = Class::Reject400;
                    m.why = format!("Content-Length: {:?}", v);
                    m.end = i;
                    out.push(m);
                    return out;
                }
            }
        }
        if m.version > (1, 1) {
            m.class = Class::Reject505;
            m.why = "version above 1.1".into();
        }
        // body
        match m.framing.clone() {
            Framing::None => m.end = i,
            Framing::Length(n) => {
                let avail = b.len() - i;
                if avail >= n {
                    m.body = b[i..i + n].to_vec();
                    m.end = i + n;
                } else {
                    m.body = b[i..].to_vec();
                    m.end = b.len();
                    m.body_complete = false;
                }
            }
            Framing::Chunked => {
                let (body, end, ok) = decode_chunked(b, i);
                m.body = body;
                m.end = end;
                m.body_complete = ok;
            }
            Framing::Upgrade => {
                m.body = b[i..].to_vec();
                m.end = b.len();
            }
        }
        // persistence (C12)
        if m.class == Class::Valid {
            let keep = conn.contains("keep-alive");
            m.last = conn.contains("close")
                || conn.contains("upgrade")
                || (m.version == (1, 0) && !keep);
        }
        let stop = m.last || !m.body_complete || m.framing == Framing::Upgrade;
        pos = m.end;
        out.push(m);
        if stop {
            break;
        }
    }
    out
}

fn classify_request_line(line: &[u8], m: &mut ReqMsg) -> Option<Class> {
    if !line.is_ascii() {
        m.why = "non-ASCII request line".into();
        return Some(Class::SilentClose);
    }
    let s = std::str::from_utf8(line).unwrap();
    let parts: Vec<&str> = s.split(' ').collect();
    if parts.len() < 3 {
        m.why = "fewer than three request-line fields".into();
        return Some(Class::Reject400);
    }
    m.method = parts[0].to_string();
    m.target = parts[1].to_string();
    m.version = match parts[2] {
        "HTTP/1.0" => (1, 0),
        "HTTP/1.1" => (1, 1),
        "HTTP/2.0" => (2, 0),
        "HTTP/3.0" => (3, 0),
        "HTTP/0.9" => (0, 9),
        _ => {
            m.why = format!("unrecognised version token {:?}", parts[2]);
            return Some(Class::Reject400);
        }
    };
    None
}

fn classify_header_line(line: &[u8]) -> Option<(Class, String)> {
    if !line.is_ascii() {
        return Some((Class::SilentClose, "non-ASCII header line".into()));
    }
    let colon = match line.iter().position(|&c| c == b':') {
        Some(c) => c,
        None => return Some((Class::Reject400, "header line without a colon".into())),
    };
    let name = &line[..colon];
    if name.is_empty() || name.iter().any(|&c| c == b' ' || c == b'\t') {
        return Some((
            Class::Reject400,
            "whitespace in or around the header name".into(),
        ));
    }
    None
}

fn fill_headers(lines: &[&[u8]], m: &mut ReqMsg) {
    for l in lines {
        if let Some(c) = l.iter().position(|&c| c == b':') {
            let n = String::from_utf8_lossy(&l[..c]).into_owned();
            let v = String::from_utf8_lossy(trim_ows(&l[c + 1..])).into_owned();
            if eq_ic(&n, "X-Id") {
                m.id = Some(v.clone());
            }
            m.headers.push((n, v));
        }
    }
}

// ---------------------------------------------------------------------------
// client-side response parser (RFC 7230 section 3.3.3)

#[derive(Clone, Debug, PartialEq, Eq, Serialize, Deserialize)]
pub enum RFraming {
    NoBody,
    Length(usize),
    Chunked,
    UntilClose,
    /// 101: the rest of the stream is not HTTP
    Switched,
}

#[derive(Clone, Debug, Serialize, Deserialize)]
pub struct RespMsg {
    pub status: u16,
    pub version: String,
    pub reason: String,
    pub headers: Vec<(String, String)>,
    pub body: Vec<u8>,
    pub framing: RFraming,
    pub start: usize,
    pub head_end: usize,
    pub end: usize,
    pub complete: bool,
    /// syntax problems of the head (empty = well-formed)
    pub syntax: Vec<String>,
}

#[derive(Clone, Debug, Default)]
pub struct RespParse {
    pub msgs: Vec<RespMsg>,
    /// offset at which parsing stopped
    pub rest: usize,
    pub error: Option<String>,
}

fn is_tchar(c: u8) -> bool {
    c.is_ascii_alphanumeric() || b"!#$%&'*+-.^_`|~".contains(&c)
}

/// Parse a response stream. `is_head(k)` says whether the k-th *final* response
/// answers a HEAD request.
pub fn parse_responses(b: &[u8], is_head: &dyn Fn(usize) -> bool) -> RespParse {
    let mut out = RespParse::default();
    let mut pos = 0;
    let mut finals = 0usize;
    while pos < b.len() {
        let mut m = RespMsg {
            status: 0,
            version: String::new(),
            reason: String::new(),
            headers: vec![],
            body: vec![],
            framing: RFraming::NoBody,
            start: pos,
            head_end: pos,
            end: pos,
            complete: false,
            syntax: vec![],
        };
        // status line
        let e = match find_crlf(b, pos) {
            Some(e) => e,
            None => {
                out.rest = pos;
                out.msgs.push(m);
                return out;
            }
        };
        let line = &b[pos..e];
        let s = String::from_utf8_lossy(line).into_owned();
        let ok = line.len() >= 12
            && line.starts_with(b"HTTP/")
            && line[5].is_ascii_digit()
            && line[6] == b'.'
            && line[7].is_ascii_digit()
            && line[8] == b' '
            && line[9..12].iter().all(|c| c.is_ascii_digit())
            && (line.len() == 12 || line[12] == b' ');
        if !ok {
            out.error = Some(format!("bad status line {:?} at offset {}", s, pos));
            out.rest = pos;
            return out;
        }
        m.version = s[5..8].to_string();
        m.status = s[9..12].parse().unwrap();
        m.reason = if line.len() > 13 {
            s[13..].to_string()
        } else {
            String::new()
        };
        if line[12..].iter().any(|&c| c == b'\r' || c == b'\n' || c == 0) {
            m.syntax.push("control byte in reason phrase".into());
        }
        let mut i = e + 2;
        let mut head_done = false;
        while let Some(e) = find_crlf(b, i) {
            let l = &b[i..e];
            i = e + 2;
            if l.is_empty() {
                head_done = true;
                break;
            }
            match l.iter().position(|&c| c == b':') {
                Some(c) if c > 0 && l[..c].iter().all(|&x| is_tchar(x)) => {
                    let v = trim_ows(&l[c + 1..]);
                    if v.iter().any(|&x| x == b'\r' || x == b'\n' || x == 0) {
                        m.syntax.push("bare CR/LF/NUL in header value".into());
                    }
                    m.headers.push((
                        String::from_utf8_lossy(&l[..c]).into_owned(),
                        String::from_utf8_lossy(v).into_owned(),
                    ));
                }
                _ => m.syntax.push(format!(
                    "malformed header line {:?}",
                    String::from_utf8_lossy(l)
                )),
            }
        }
        if !head_done {
            out.rest = pos;
            out.msgs.push(m);
            return out;
        }
        m.head_end = i;
        let informational = (100..200).contains(&m.status) && m.status != 101;
        let head_resp = if informational {
            false
        } else {
            let h = is_head(finals);
            finals += 1;
            h
        };
        let te = header(&m.headers, "Transfer-Encoding").map(|v| v.to_ascii_lowercase());
        let cls: Vec<&str> = m
            .headers
            .iter()
            .filter(|h| eq_ic(&h.0, "Content-Length"))
            .map(|h| h.1.as_str())
            .collect();
        if cls.len() > 1 {
            m.syntax.push("more than one Content-Length".into());
        }
        if te.is_some() && !cls.is_empty() {
            m.syntax
                .push("both Transfer-Encoding and Content-Length".into());
        }
        if m.status == 101 {
            m.framing = RFraming::Switched;
            m.end = i;
            m.complete = true;
            out.msgs.push(m);
            out.rest = i;
            return out;
        }
        if informational || m.status == 204 || m.status == 304 || head_resp {
            m.framing = RFraming::NoBody;
            m.end = i;
            m.complete = true;
        } else if let Some(te) = te {
            if te.split(',').last().map(|t| t.trim()) == Some("chunked") {
                m.framing = RFraming::Chunked;
                let (body, end, ok) = decode_chunked(b, i);
                m.body = body;
                m.end = end;
                m.complete = ok;
            } else {
                m.framing = RFraming::UntilClose;
                m.body = b[i..].to_vec();
                m.end = b.len();
                m.complete = true;
            }
        } else if let Some(v) = cls.first() {
            match v.parse::<usize>() {
                Ok(n) if v.bytes().all(|c| c.is_ascii_digit()) => {
                    m.framing = RFraming::Length(n);
                    if b.len() - i >= n {
                        m.body = b[i..i + n].to_vec();
                        m.end = i + n;
                        m.complete = true;
                    } else {
                        m.body = b[i..].to_vec();
                        m.end = b.len();
                    }
                }
                _ => {
                    m.syntax.push(format!("invalid Content-Length {:?}", v));
                    m.framing = RFraming::UntilClose;
                    m.body = b[i..].to_vec();
                    m.end = b.len();
                    m.complete = true;
                }
            }
        } else {
            m.framing = RFraming::UntilClose;
            m.body = b[i..].to_vec();
            m.end = b.len();
            m.complete = true;
        }
        let done = m.complete;
        pos = m.end;
        out.msgs.push(m);
        if !done {
            out.rest = pos;
            return out;
        }
    }
    out.rest = pos;
    out
}

/// The final (non-1xx) complete responses.
pub fn finals(p: &RespParse) -> Vec<&RespMsg> {
    p.msgs
        .iter()
        .filter(|m| m.complete && (m.status == 101 || !(100..200).contains(&m.status)))
        .collect()
}
