//! Orchestrator: worker processes, determinism self-check, known findings,
//! minimisation, replay files, evidence.

use crate::engine::{run_scenario, RunOut};
use crate::props::{self, Campaign, Tier, Verdict, Violation};
use crate::rng::{run_seed, Rng};
use crate::scenario::Scenario;
use serde::{Deserialize, Serialize};
use serde_json::json;
use std::collections::{BTreeMap, BTreeSet, HashSet};
use std::io::Write;
use std::process::{Command, Stdio};
use std::time::Instant;

pub const VERIF: &str = match option_env!("DST_VERIF_DIR") { Some(d) => d, None => "/verif" };

#[derive(Serialize, Deserialize, Clone, Debug)]
pub struct Replay {
    pub property: String,
    pub clause: String,
    pub signature: String,
    pub detail: String,
    pub verif_seed: u64,
    pub tier: String,
    pub index: u64,
    pub run_seed: u64,
    pub scenario: Scenario,
    pub trace: Vec<u32>,
    pub expect_hash: u64,
    pub minimised: bool,
    pub steps: u64,
}

#[derive(Serialize, Deserialize, Clone, Debug, Default)]
pub struct KnownFinding {
    pub status: String, // "known" | "fixed"
    pub property: String,
    pub clause: String,
    pub signature: String,
    pub what: String,
    #[serde(default)]
    pub commit: String,
}

#[derive(Serialize, Deserialize, Clone, Debug, Default)]
pub struct WorkerStats {
    pub runs: u64,
    pub next_index: u64,
    pub done: bool,
    pub nontrivial: u64,
    pub inconclusive: u64,
    pub inconclusive_sample: Option<String>,
    pub steps_total: u64,
    pub steps_max: u64,
    pub sim_ns_total: u64,
    pub ctx_switches: u64,
    pub choice_points: u64,
    pub max_threads: usize,
    pub outcomes: BTreeMap<String, u64>,
    pub faults: BTreeMap<String, u64>,
    pub probes: BTreeMap<String, u64>,
    pub tags: BTreeMap<String, u64>,
    pub strategies: BTreeMap<String, u64>,
    pub violations: Vec<(u64, Violation)>,
    pub samples: Vec<serde_json::Value>,
    pub fp_file: String,
    pub hashes: Vec<(u64, u64)>,
    pub leaked_threads: u64,
    pub lib_panics: u64,
    #[serde(default)]
    pub stopped_early: bool,
}

pub fn tier_of(s: &str) -> Tier {
    if s == "thorough" {
        Tier::Thorough
    } else {
        Tier::Quick
    }
}
pub fn tier_name(t: Tier) -> &'static str {
    match t {
        Tier::Quick => "quick",
        Tier::Thorough => "thorough",
    }
}

pub fn gen_scenario(c: &dyn Campaign, verif_seed: u64, tier: Tier, index: u64) -> (u64, Scenario) {
    let rs = run_seed(verif_seed, c.id(), tier_name(tier), index);
    let mut rng = Rng::new(rs);
    (rs, c.generate(&mut rng, index, tier))
}

fn sample_json(index: u64, sc: &Scenario, out: &RunOut, v: &Verdict) -> serde_json::Value {
    let mut s = serde_json::to_value(sc).unwrap_or(json!(null));
    // abbreviate long byte strings
    fn abbreviate(v: &mut serde_json::Value) {
        match v {
            serde_json::Value::String(s) if s.len() > 160 => {
                let cut: String = s.chars().take(120).collect();
                *s = format!("{}...({} chars)", cut, s.len());
            }
            serde_json::Value::Array(a) => a.iter_mut().for_each(abbreviate),
            serde_json::Value::Object(o) => o.values_mut().for_each(abbreviate),
            _ => {}
        }
    }
    abbreviate(&mut s);
    json!({
        "run_index": index,
        "scenario": s,
        "outcome": format!("{:?}", out.report.outcome),
        "steps": out.report.steps,
        "virtual_ns": out.report.now,
        "interleaving_hash": format!("{:016x}", out.report.hash),
        "choices_first_40": out.report.trace.iter().take(40).collect::<Vec<_>>(),
        "delivered": out.obs.delivered_ids(),
        "tags": v.tags,
    })
}

/// Run indices start, start+stride, ... < end in this process.
pub fn worker(prop: &str, tier: Tier, verif_seed: u64, start: u64, end: u64, stride: u64, want_hashes: bool, wid: usize) -> i32 {
    let c = match props::by_id(prop) {
        Some(c) => c,
        None => {
            eprintln!("unknown property {}", prop);
            return 2;
        }
    };
    let mut st = WorkerStats::default();
    let mut fps: Vec<u64> = Vec::new();
    let announce = c.crash_is_violation();
    // watchdog: a run that makes no progress in real time (a thread blocked on something the
    // simulated runtime does not control) must not hang the check for ever
    static HEARTBEAT: std::sync::atomic::AtomicU64 = std::sync::atomic::AtomicU64::new(0);
    std::thread::spawn(|| {
        let mut last = u64::MAX;
        let mut stale = 0u32;
        loop {
            std::thread::sleep(std::time::Duration::from_secs(5));
            let now = HEARTBEAT.load(std::sync::atomic::Ordering::Relaxed);
            if now == last {
                stale += 1;
            } else {
                stale = 0;
                last = now;
            }
            if stale >= 36 {
                eprintln!("harness error: run index {} did not finish within 180 s of wall-clock time (a thread is blocked outside the simulated runtime?)", now);
                std::process::exit(3);
            }
        }
    });
    let mut index = start;
    let mut sigs_seen: BTreeSet<String> = BTreeSet::new();
    let mut violating_runs = 0u64;
    let stdout = std::io::stdout();
    while index < end {
        if announce {
            let mut o = stdout.lock();
            let _ = writeln!(o, "RUN {}", index);
            let _ = o.flush();
        }
        HEARTBEAT.store(index, std::sync::atomic::Ordering::Relaxed);
        let (rs, sc) = gen_scenario(c, verif_seed, tier, index);
        let out = run_scenario(&sc, rs, None, false, false);
        let v = check_run(c, &sc, &out);
        st.runs += 1;
        st.steps_total += out.report.steps;
        st.steps_max = st.steps_max.max(out.report.steps);
        st.sim_ns_total += out.report.now;
        st.ctx_switches += out.report.context_switches;
        st.choice_points += out.report.choice_points;
        st.max_threads = st.max_threads.max(out.report.max_threads);
        *st.outcomes.entry(format!("{:?}", out.report.outcome)).or_insert(0) += 1;
        *st.strategies.entry(format!("{:?}", sc.knobs.strategy).split(' ').next().unwrap_or("").trim_matches('{').to_string()).or_insert(0) += 1;
        for (k, n) in &out.report.faults {
            *st.faults.entry(k.clone()).or_insert(0) += n;
        }
        for (k, n) in &out.report.probes {
            *st.probes.entry(k.clone()).or_insert(0) += n;
        }
        for t in &v.tags {
            *st.tags.entry(t.clone()).or_insert(0) += 1;
        }
        if v.nontrivial {
            st.nontrivial += 1;
            fps.push(out.report.hash);
        }
        if let Some(why) = &v.inconclusive {
            st.inconclusive += 1;
            if st.inconclusive_sample.is_none() {
                st.inconclusive_sample = Some(format!("index {}: {}", index, why));
            }
        }
        if want_hashes {
            st.hashes.push((index, out.report.hash));
        }
        if st.samples.len() < 2 && v.nontrivial {
            st.samples.push(sample_json(index, &sc, &out, &v));
        }
        st.lib_panics += out
            .report
            .panics
            .iter()
            .filter(|p| !p.location.contains("harness/src"))
            .count() as u64;
        let leaked = out.report.threads.iter().filter(|t| !t.finished).count() as u64;
        st.leaked_threads += leaked;
        if !v.violations.is_empty() {
            violating_runs += 1;
        }
        for viol in v.violations {
            let key = format!("{}|{}", viol.clause, viol.signature);
            // keep the first few per signature (smallest scenarios are found by minimisation later)
            let n = st.violations.iter().filter(|x| format!("{}|{}", x.1.clause, x.1.signature) == key).count();
            sigs_seen.insert(key);
            if n < 3 {
                st.violations.push((index, viol));
            }
        }
        index += stride;
        if violating_runs >= 25 {
            // enough evidence of a violation: the verdict is decided, stop exploring
            st.stopped_early = true;
            index = end;
            break;
        }
        if st.leaked_threads > 1500 {
            break; // recycle this process: leaked (blocked-for-ever) threads pile up
        }
    }
    st.next_index = index;
    st.done = index >= end;
    // fingerprints to a file
    let dir = format!("{}/target/tmp", VERIF);
    let _ = std::fs::create_dir_all(&dir);
    let fp_file = format!("{}/fp-{}-{}-{}-{}.bin", dir, prop, std::process::id(), wid, start);
    let mut bytes = Vec::with_capacity(fps.len() * 8);
    for f in &fps {
        bytes.extend_from_slice(&f.to_le_bytes());
    }
    let _ = std::fs::write(&fp_file, bytes);
    st.fp_file = fp_file;
    let mut o = stdout.lock();
    let _ = writeln!(o, "STATS {}", serde_json::to_string(&st).unwrap());
    let _ = o.flush();
    // leaked threads are parked for ever: leave without joining them
    std::process::exit(0);
}

fn merge(into: &mut WorkerStats, s: WorkerStats) {
    into.runs += s.runs;
    into.nontrivial += s.nontrivial;
    into.inconclusive += s.inconclusive;
    if into.inconclusive_sample.is_none() {
        into.inconclusive_sample = s.inconclusive_sample;
    }
    into.steps_total += s.steps_total;
    into.steps_max = into.steps_max.max(s.steps_max);
    into.sim_ns_total += s.sim_ns_total;
    into.ctx_switches += s.ctx_switches;
    into.choice_points += s.choice_points;
    into.max_threads = into.max_threads.max(s.max_threads);
    into.leaked_threads += s.leaked_threads;
    into.stopped_early |= s.stopped_early;
    into.lib_panics += s.lib_panics;
    for (k, n) in s.outcomes {
        *into.outcomes.entry(k).or_insert(0) += n;
    }
    for (k, n) in s.faults {
        *into.faults.entry(k).or_insert(0) += n;
    }
    for (k, n) in s.probes {
        *into.probes.entry(k).or_insert(0) += n;
    }
    for (k, n) in s.tags {
        *into.tags.entry(k).or_insert(0) += n;
    }
    for (k, n) in s.strategies {
        *into.strategies.entry(k).or_insert(0) += n;
    }
    into.violations.extend(s.violations);
    if into.samples.len() < 3 {
        into.samples.extend(s.samples);
        into.samples.truncate(3);
    }
    into.hashes.extend(s.hashes);
}

pub struct BatchResult {
    pub stats: WorkerStats,
    pub fingerprints: HashSet<u64>,
    /// run indices at which a worker process died (signal/abort)
    pub crashes: Vec<(u64, String)>,
    pub harness_errors: Vec<String>,
}

#[derive(Default)]
struct SlotResult {
    stats: Vec<WorkerStats>,
    crashes: Vec<(u64, String)>,
    errors: Vec<String>,
}

/// One worker slot: run its index sequence in (possibly several successive) pinned processes.
fn run_slot(prop: String, tier: Tier, seed: u64, mut start: u64, end: u64, stride: u64, hashes: bool, wid: usize, core: usize) -> SlotResult {
    let mut res = SlotResult::default();
    let exe = match std::env::current_exe() {
        Ok(e) => e,
        Err(e) => {
            res.errors.push(format!("current_exe: {}", e));
            return res;
        }
    };
    let mut restarts = 0;
    while start < end {
        restarts += 1;
        if restarts > 100_000 {
            res.errors.push("too many worker restarts".into());
            break;
        }
        let out = Command::new("taskset")
            .arg("-c")
            .arg(core.to_string())
            .arg(&exe)
            .arg("worker")
            .arg(&prop)
            .arg(tier_name(tier))
            .arg(seed.to_string())
            .arg(start.to_string())
            .arg(end.to_string())
            .arg(stride.to_string())
            .arg(if hashes { "1" } else { "0" })
            .arg(wid.to_string())
            .stdout(Stdio::piped())
            .stderr(Stdio::piped())
            .output();
        let out = match out {
            Ok(o) => o,
            Err(e) => {
                res.errors.push(format!("cannot run worker: {}", e));
                break;
            }
        };
        let text = String::from_utf8_lossy(&out.stdout);
        let mut last_run: Option<u64> = None;
        let mut stats: Option<WorkerStats> = None;
        for line in text.lines() {
            if let Some(r) = line.strip_prefix("RUN ") {
                last_run = r.trim().parse().ok();
            } else if let Some(s) = line.strip_prefix("STATS ") {
                stats = serde_json::from_str(s).ok();
            }
        }
        match stats {
            Some(s) => {
                start = s.next_index;
                let done = s.done;
                res.stats.push(s);
                if done {
                    break;
                }
            }
            None => {
                let err = String::from_utf8_lossy(&out.stderr);
                let tail = err.lines().rev().take(6).collect::<Vec<_>>().join(" | ");
                let status = format!("{:?}", out.status);
                match last_run {
                    Some(idx) => {
                        res.crashes.push((idx, format!("worker process died ({}) during run index {}: {}", status, idx, tail)));
                        start = idx + stride;
                    }
                    None => {
                        res.errors.push(format!("worker {} (start {}) died without statistics: {} {}", wid, start, status, tail));
                        break;
                    }
                }
            }
        }
    }
    res
}

/// Run indices [lo, lo+total) over `nworkers` pinned processes.
pub fn run_batch(prop: &str, tier: Tier, seed: u64, lo: u64, total: u64, nworkers: usize, hashes: bool, core_offset: usize) -> BatchResult {
    let mut res = BatchResult {
        stats: WorkerStats::default(),
        fingerprints: HashSet::new(),
        crashes: vec![],
        harness_errors: vec![],
    };
    let ncores = std::thread::available_parallelism().map(|n| n.get()).unwrap_or(1);
    let nworkers = nworkers.max(1).min(total.max(1) as usize);
    let mut handles = Vec::new();
    for w in 0..nworkers {
        let prop = prop.to_string();
        let core = (w + core_offset) % ncores;
        handles.push(std::thread::spawn(move || {
            run_slot(prop, tier, seed, lo + w as u64, lo + total, nworkers as u64, hashes, w, core)
        }));
    }
    for h in handles {
        match h.join() {
            Ok(slot) => {
                for s in slot.stats {
                    if let Ok(b) = std::fs::read(&s.fp_file) {
                        for ch in b.chunks_exact(8) {
                            res.fingerprints.insert(u64::from_le_bytes(ch.try_into().unwrap()));
                        }
                        let _ = std::fs::remove_file(&s.fp_file);
                    }
                    merge(&mut res.stats, s);
                }
                res.crashes.extend(slot.crashes);
                res.harness_errors.extend(slot.errors);
            }
            Err(_) => res.harness_errors.push("worker slot thread panicked".into()),
        }
    }
    res
}

pub fn load_known() -> Vec<KnownFinding> {
    let p = format!("{}/known_findings.json", VERIF);
    match std::fs::read_to_string(&p) {
        Ok(s) => serde_json::from_str::<Vec<KnownFinding>>(&s).unwrap_or_else(|e| {
            eprintln!("harness error: cannot parse {}: {}", p, e);
            std::process::exit(2);
        }),
        Err(_) => vec![],
    }
}

/// The campaign's oracle, or — when the run hit the step cap (no progress within the bound:
/// a livelock; the end-of-run snapshots do not exist) — the campaign's liveness violation.
pub fn check_run(c: &dyn Campaign, sc: &Scenario, out: &RunOut) -> Verdict {
    if out.report.outcome == simrt::Outcome::StepCap {
        let busy: Vec<String> = out
            .report
            .threads
            .iter()
            .filter(|t| !t.finished && t.state == "Runnable")
            .map(|t| format!("{}@{}", t.name.clone().unwrap_or_else(|| "lib".into()), t.last_op))
            .collect();
        return Verdict {
            violations: vec![Violation {
                clause: format!("{}.no_progress", c.id()),
                signature: "step cap reached: some thread keeps running without the run ever quiescing (livelock)".into(),
                detail: format!("{}: {} scheduling steps without reaching quiescence; still running: {:?}", sc.note, out.report.steps, busy),
            }],
            inconclusive: None,
            nontrivial: true,
            tags: vec!["step_cap".into()],
        };
    }
    c.check(sc, out)
}

fn same_violation(v: &[Violation], clause: &str, sig: &str) -> Option<Violation> {
    v.iter().find(|x| x.clause == clause && x.signature == sig).cloned()
}

/// Run a scenario in-process and return the violation matching (clause, signature), if any.
fn try_run(c: &dyn Campaign, sc: &Scenario, seed: u64, replay: Option<Vec<u32>>, tolerant: bool, clause: &str, sig: &str) -> Option<(RunOut, Violation)> {
    let out = run_scenario(sc, seed, replay, tolerant, false);
    let v = check_run(c, sc, &out);
    same_violation(&v.violations, clause, sig).map(|x| (out, x))
}

/// Structural shrink candidates that keep a scenario legal.
fn shrink_candidates(sc: &Scenario) -> Vec<Scenario> {
    use crate::scenario::*;
    let mut out = Vec::new();
    // drop a whole connection
    if sc.conns.iter().filter(|c| !c.disabled).count() > 1 {
        for i in 0..sc.conns.len() {
            if sc.conns[i].disabled {
                continue;
            }
            let mut s = sc.clone();
            s.conns[i].disabled = true;
            s.conns[i].steps.clear();
            let prefix = format!("c{}r", i);
            s.programs.retain(|k, _| !k.starts_with(&prefix));
            out.push(s);
        }
    }
    // fewer receivers
    if sc.receivers.len() > 1 {
        let mut s = sc.clone();
        s.receivers.pop();
        out.push(s);
    }
    // knobs off
    if sc.knobs.spurious {
        let mut s = sc.clone();
        s.knobs.spurious = false;
        out.push(s);
    }
    if sc.knobs.racy_time {
        let mut s = sc.clone();
        s.knobs.racy_time = false;
        out.push(s);
    }
    for i in 0..sc.conns.len() {
        let c = &sc.conns[i];
        if c.window.is_some() {
            let mut s = sc.clone();
            s.conns[i].window = None;
            s.conns[i].drain = None;
            out.push(s);
        }
        if c.short_writes.is_some() {
            let mut s = sc.clone();
            s.conns[i].short_writes = None;
            out.push(s);
        }
        if c.coalesce {
            let mut s = sc.clone();
            s.conns[i].coalesce = false;
            out.push(s);
        }
        // merge all sends into one segment / remove pauses
        let sends = c.steps.iter().filter(|x| matches!(x, ClientStep::Send(_))).count();
        let only_send_pause = c.steps.iter().all(|x| matches!(x, ClientStep::Send(_) | ClientStep::Pause(_)));
        if only_send_pause && (sends > 1 || c.steps.len() > sends) {
            let mut s = sc.clone();
            let all = crate::props::gen::sent_bytes(c);
            s.conns[i].steps = vec![ClientStep::Send(B(all))];
            out.push(s);
        }
        if c.steps.iter().any(|x| matches!(x, ClientStep::Pause(_))) {
            let mut s = sc.clone();
            s.conns[i].steps.retain(|x| !matches!(x, ClientStep::Pause(_)));
            out.push(s);
        }
    }
    // simplify programs
    for (id, p) in &sc.programs {
        if p.delay != 0 || p.delay2 != 0 || !p.after.is_empty() {
            let mut s = sc.clone();
            let q = s.programs.get_mut(id).unwrap();
            q.delay = 0;
            q.delay2 = 0;
            q.after.clear();
            out.push(s);
        }
        let simple = Finish::Respond(RespSpec::simple(200, crate::props::gen::token_body(id, 10)));
        if p.finish != simple {
            let mut s = sc.clone();
            s.programs.get_mut(id).unwrap().finish = simple;
            out.push(s);
        }
        if p.body != BodyPlan::None {
            let mut s = sc.clone();
            s.programs.get_mut(id).unwrap().body = BodyPlan::None;
            out.push(s);
        }
        if let Finish::Respond(spec) = &p.finish {
            if spec.body.0.len() > 10 && spec.replace_data.is_none() {
                let mut s = sc.clone();
                if let Finish::Respond(sp) = &mut s.programs.get_mut(id).unwrap().finish {
                    sp.body = B(crate::props::gen::token_body(id, 10));
                    if sp.declared.is_some() {
                        sp.declared = Some(10);
                    }
                }
                out.push(s);
            }
        }
    }
    out
}

/// Minimise scenario and schedule while the same (clause, signature) is reported.
fn minimise(c: &dyn Campaign, mut sc: Scenario, mut seed: u64, clause: &str, sig: &str, budget_s: f64) -> Option<(Scenario, u64, Vec<u32>, RunOut, Violation)> {
    let t0 = Instant::now();
    let (mut best_out, mut best_v) = try_run(c, &sc, seed, None, false, clause, sig)?;
    // 1. scenario shrinking (each candidate is tried under a few schedules)
    let mut progress = true;
    while progress && t0.elapsed().as_secs_f64() < budget_s * 0.6 {
        progress = false;
        for cand in shrink_candidates(&sc) {
            if t0.elapsed().as_secs_f64() > budget_s * 0.6 {
                break;
            }
            let mut found = None;
            for k in 0..24u64 {
                if t0.elapsed().as_secs_f64() > budget_s * 0.6 {
                    break;
                }
                let s2 = if k == 0 { seed } else { crate::rng::mix2(seed, k) };
                if let Some((o, v)) = try_run(c, &cand, s2, None, false, clause, sig) {
                    found = Some((s2, o, v));
                    break;
                }
            }
            if let Some((s2, o, v)) = found {
                sc = cand;
                seed = s2;
                best_out = o;
                best_v = v;
                progress = true;
                break;
            }
        }
    }
    // 2. schedule shrinking: replace recorded choices by the default ("keep running") in chunks
    let mut trace = best_out.report.trace.clone();
    const DEF: u32 = u32::MAX;
    let mut chunk = (trace.len() / 2).max(1);
    while chunk >= 1 && t0.elapsed().as_secs_f64() < budget_s {
        let mut i = 0;
        let mut any = false;
        while i < trace.len() && t0.elapsed().as_secs_f64() < budget_s {
            let hi = (i + chunk).min(trace.len());
            if trace[i..hi].iter().all(|&x| x == DEF) {
                i = hi;
                continue;
            }
            let mut t2 = trace.clone();
            for x in &mut t2[i..hi] {
                *x = DEF;
            }
            if try_run(c, &sc, seed, Some(t2.clone()), true, clause, sig).is_some() {
                trace = t2;
                any = true;
            }
            i = hi;
        }
        if chunk == 1 && !any {
            break;
        }
        chunk = if chunk == 1 { if any { 1 } else { 0 } } else { chunk / 2 };
        if chunk == 0 {
            break;
        }
    }
    // 3. re-record the exact trace of the final candidate
    if let Some((o, v)) = try_run(c, &sc, seed, Some(trace), true, clause, sig) {
        let exact = o.report.trace.clone();
        if let Some((o2, v2)) = try_run(c, &sc, seed, Some(exact.clone()), false, clause, sig) {
            return Some((sc, seed, exact, o2, v2));
        }
        let _ = (o, v);
    }
    let exact = best_out.report.trace.clone();
    let (o2, v2) = try_run(c, &sc, seed, Some(exact.clone()), false, clause, sig)?;
    let _ = best_v;
    Some((sc, seed, exact, o2, v2))
}

/// `dst replay <file>`: 1 = violation reproduced, 0 = property held on this replay, 2 = harness error
pub fn replay_file(path: &str, verbose: bool) -> i32 {
    let text = match std::fs::read_to_string(path) {
        Ok(t) => t,
        Err(e) => {
            eprintln!("harness error: cannot read {}: {}", path, e);
            return 2;
        }
    };
    let rp: Replay = match serde_json::from_str(&text) {
        Ok(r) => r,
        Err(e) => {
            eprintln!("harness error: cannot parse {}: {}", path, e);
            return 2;
        }
    };
    let c = match props::by_id(&rp.property) {
        Some(c) => c,
        None => {
            eprintln!("harness error: unknown property {}", rp.property);
            return 2;
        }
    };
    if rp.clause.ends_with(".no_abort") {
        // the violation is the death of the process: run the scenario in a child
        if std::env::var("DST_ABORT_CHILD").is_ok() {
            for k in 0..40u64 {
                let _ = run_scenario(&rp.scenario, crate::rng::mix2(rp.run_seed, k), None, false, false);
            }
            return 0;
        }
        let st = Command::new(std::env::current_exe().unwrap())
            .arg("replay")
            .arg(path)
            .env("DST_ABORT_CHILD", "1")
            .stdout(Stdio::null())
            .stderr(Stdio::piped())
            .output();
        return match st {
            Ok(o) if o.status.code().is_none() || o.status.code() == Some(134) => {
                let err = String::from_utf8_lossy(&o.stderr);
                let line = err.lines().find(|l| l.contains("memory allocation") || l.contains("panicked")).unwrap_or("");
                println!("REPRODUCED {} [{}]: the process running this scenario died ({:?}) {}", rp.clause, rp.signature, o.status, line);
                println!("VIOLATION property={} replay={}", rp.property, path);
                1
            }
            Ok(_) => {
                println!("NOT REPRODUCED: the process survives this scenario under 40 schedules");
                0
            }
            Err(e) => {
                eprintln!("harness error: {}", e);
                2
            }
        };
    }
    let out = run_scenario(&rp.scenario, rp.run_seed, Some(rp.trace.clone()), false, verbose);
    let v = check_run(c, &rp.scenario, &out);
    if verbose {
        for l in &out.report.log {
            println!("{}", l);
        }
        println!("--- observations");
        for e in &out.obs.events {
            println!("{:?}", e);
        }
        for (i, c) in out.obs.conns.iter().enumerate() {
            println!("conn {} received: {:?} fin={:?}", i, c.received, c.server_fin);
        }
        for t in &out.report.threads {
            println!("thread {:?} {} last_op={}", t.name, t.state, t.last_op);
        }
    }
    let exact = out.report.outcome != simrt::Outcome::ReplayDiverged && out.report.hash == rp.expect_hash;
    println!(
        "replay {}: outcome={:?} steps={} hash={:016x} (expected {:016x}) exact={}",
        path, out.report.outcome, out.report.steps, out.report.hash, rp.expect_hash, exact
    );
    if let Some(x) = same_violation(&v.violations, &rp.clause, &rp.signature) {
        if exact {
            println!("REPRODUCED {} [{}]: {}", x.clause, x.signature, x.detail);
            println!("VIOLATION property={} replay={}", rp.property, path);
            return 1;
        }
    }
    if !exact {
        // the code under test changed the sequence of operations: fall back to a tolerant replay and a seed sweep
        let mut hit = None;
        if let Some((_, x)) = try_run(c, &rp.scenario, rp.run_seed, Some(rp.trace.clone()), true, &rp.clause, &rp.signature) {
            hit = Some(x);
        }
        if hit.is_none() {
            for k in 0..200u64 {
                if let Some((_, x)) = try_run(c, &rp.scenario, crate::rng::mix2(rp.run_seed, k), None, false, &rp.clause, &rp.signature) {
                    hit = Some(x);
                    break;
                }
            }
        }
        match hit {
            Some(x) => {
                println!("schedule diverged from the recording (code changed?), but the scenario still violates {} [{}]: {}", x.clause, x.signature, x.detail);
                println!("VIOLATION property={} replay={}", rp.property, path);
                return 1;
            }
            None => {
                println!("schedule diverged from the recording (code changed?); the scenario no longer violates {} under the recorded choices (tolerant) nor under 200 other schedules", rp.clause);
                return 0;
            }
        }
    }
    println!("NOT REPRODUCED: {} [{}] does not occur on this tree", rp.clause, rp.signature);
    0
}

pub struct CheckOpts {
    pub prop: String,
    pub tier: Tier,
    pub seed: u64,
    pub workers: usize,
    pub runs_override: Option<u64>,
}

/// `dst check <prop> <tier>`
pub fn check(o: &CheckOpts) -> i32 {
    let t0 = Instant::now();
    let c = match props::by_id(&o.prop) {
        Some(c) => c,
        None => {
            eprintln!("harness error: unknown property {}", o.prop);
            return 2;
        }
    };
    let total = o.runs_override.unwrap_or_else(|| c.runs(o.tier));
    println!("check {} tier={} VERIF_SEED={} runs={} workers={}", c.id(), tier_name(o.tier), o.seed, total, o.workers);

    // determinism self-check: the same 64 run indices in two different process layouts
    let nd = 64.min(total);
    let a = run_batch(c.id(), o.tier, o.seed, 0, nd, 1, true, 0);
    let b = run_batch(c.id(), o.tier, o.seed, 0, nd, 4.min(o.workers), true, 5);
    let ha: BTreeMap<u64, u64> = a.stats.hashes.iter().cloned().collect();
    let hb: BTreeMap<u64, u64> = b.stats.hashes.iter().cloned().collect();
    let crashed_det = !a.crashes.is_empty() || !b.crashes.is_empty();
    if !a.harness_errors.is_empty() || !b.harness_errors.is_empty() {
        eprintln!("harness error during determinism self-check: {:?} {:?}", a.harness_errors, b.harness_errors);
        return 2;
    }
    let mut det_mismatch = 0;
    for (k, v) in &ha {
        if hb.get(k).map(|x| x != v).unwrap_or(!crashed_det) {
            det_mismatch += 1;
            eprintln!("determinism mismatch at run index {}: {:016x} vs {:?}", k, v, hb.get(k));
        }
    }
    if det_mismatch > 0 {
        eprintln!("harness error: {} of {} runs are not reproducible", det_mismatch, nd);
        return 2;
    }
    println!("determinism self-check: {} runs, two process layouts, identical interleaving hashes", ha.len());

    let main = run_batch(c.id(), o.tier, o.seed, 0, total, o.workers, false, 0);
    if !main.harness_errors.is_empty() {
        eprintln!("harness error: {:?}", main.harness_errors);
        return 2;
    }
    let st = &main.stats;
    if st.runs > 50 && st.inconclusive * 100 > st.runs && st.violations.is_empty() && main.crashes.is_empty() {
        eprintln!(
            "harness error: {} of {} runs inconclusive (> 1 %): {:?}",
            st.inconclusive, st.runs, st.inconclusive_sample
        );
        return 2;
    }
    if st.steps_max * 10 > 2_000_000 {
        eprintln!("harness warning: largest run used {} steps (> 10 % of the cap)", st.steps_max);
    }

    // violations: group by (clause, signature)
    let known = load_known();
    let mut groups: BTreeMap<(String, String), Vec<(u64, Violation)>> = BTreeMap::new();
    for (idx, v) in &st.violations {
        groups.entry((v.clause.clone(), v.signature.clone())).or_default().push((*idx, v.clone()));
    }
    let mut crash_groups: Vec<(u64, String)> = vec![];
    if c.crash_is_violation() {
        crash_groups = main.crashes.clone();
    } else if !main.crashes.is_empty() {
        eprintln!("harness error: worker processes died: {:?}", main.crashes);
        return 2;
    }
    let mut exit = 0;
    let mut known_matched: Vec<String> = vec![];
    let mut reported: Vec<serde_json::Value> = vec![];
    let _ = std::fs::create_dir_all(format!("{}/replays", VERIF));
    for ((clause, sig), mut items) in groups {
        items.sort_by_key(|x| x.0);
        let (idx, viol) = items[0].clone();
        if let Some(k) = known.iter().find(|k| k.status == "known" && k.property == c.id() && k.clause == clause && k.signature == sig) {
            println!("KNOWN-FINDING: property={} {} [{}] {} (first at run index {}, {} occurrences kept)", c.id(), clause, sig, k.what, idx, items.len());
            known_matched.push(format!("{} [{}]", clause, sig));
            continue;
        }
        // unknown violation: minimise, write the replay file, verify it in a fresh process
        let (rs, sc) = gen_scenario(c, o.seed, o.tier, idx);
        let budget = if o.tier == Tier::Quick { 20.0 } else { 60.0 };
        let path = format!("{}/replays/{}-{}-{}.json", VERIF, c.id(), clause.replace('.', "_"), idx);
        let rp = match minimise(c, sc.clone(), rs, &clause, &sig, budget) {
            Some((msc, mseed, trace, out, v)) => Replay {
                property: c.id().into(),
                clause: clause.clone(),
                signature: sig.clone(),
                detail: v.detail.clone(),
                verif_seed: o.seed,
                tier: tier_name(o.tier).into(),
                index: idx,
                run_seed: mseed,
                scenario: msc,
                trace,
                expect_hash: out.report.hash,
                minimised: true,
                steps: out.report.steps,
            },
            None => {
                eprintln!("harness error: violation {} [{}] at run index {} did not reproduce in-process: {}", clause, sig, idx, viol.detail);
                return 2;
            }
        };
        std::fs::write(&path, serde_json::to_string_pretty(&rp).unwrap()).unwrap();
        let status = Command::new(std::env::current_exe().unwrap()).arg("replay").arg(&path).stdout(Stdio::null()).status();
        match status.map(|s| s.code()) {
            Ok(Some(1)) => {}
            other => {
                eprintln!("harness error: replay file {} does not reproduce in a fresh process ({:?})", path, other);
                return 2;
            }
        }
        println!("violation {} [{}]: {}", clause, sig, rp.detail);
        println!("  first seen at run index {} (VERIF_SEED={}), minimised to {} steps / {} recorded choices; {} more occurrences", idx, o.seed, rp.steps, rp.trace.len(), items.len() - 1);
        println!("VIOLATION property={} replay={}", c.id(), path);
        reported.push(json!({"clause": clause, "signature": sig, "replay": path, "detail": rp.detail}));
        exit = 1;
    }
    let mut crash_seen: BTreeSet<String> = BTreeSet::new();
    for (idx, why) in &crash_groups {
        let clause = format!("{}.no_abort", c.id());
        let (rs, sc) = gen_scenario(c, o.seed, o.tier, *idx);
        let sig = crash_signature(&sc);
        if !crash_seen.insert(sig.clone()) {
            continue;
        }
        let n_same = crash_groups.len();
        if let Some(k) = known.iter().find(|k| k.status == "known" && k.property == c.id() && k.clause == clause && k.signature == sig) {
            println!("KNOWN-FINDING: property={} {} [{}] {} (run index {})", c.id(), clause, sig, k.what, idx);
            known_matched.push(format!("{} [{}]", clause, sig));
            continue;
        }
        let path = format!("{}/replays/{}-abort-{}.json", VERIF, c.id(), idx);
        let why_short = why
            .split(" | ")
            .find(|l| l.contains("memory allocation") || l.contains("panicked") || l.contains("abort"))
            .unwrap_or(why.split(':').next().unwrap_or(""))
            .to_string();
        let detail = format!("the process running the simulation died during run index {} ({}); {} runs of this batch died", idx, why_short.trim(), n_same);
        let rp = Replay {
            property: c.id().into(),
            clause: clause.clone(),
            signature: sig.clone(),
            detail: detail.clone(),
            verif_seed: o.seed,
            tier: tier_name(o.tier).into(),
            index: *idx,
            run_seed: rs,
            scenario: sc,
            trace: vec![],
            expect_hash: 0,
            minimised: false,
            steps: 0,
        };
        std::fs::write(&path, serde_json::to_string_pretty(&rp).unwrap()).unwrap();
        let status = Command::new(std::env::current_exe().unwrap()).arg("replay").arg(&path).stdout(Stdio::null()).stderr(Stdio::null()).status();
        match status.map(|s| s.code()) {
            Ok(Some(1)) => {}
            other => {
                eprintln!("harness error: abort replay file {} does not reproduce in a fresh process ({:?})", path, other);
                return 2;
            }
        }
        println!("violation {} [{}]: {}", clause, sig, detail);
        println!("VIOLATION property={} replay={}", c.id(), path);
        reported.push(json!({"clause": clause, "signature": sig, "replay": path, "detail": detail}));
        exit = 1;
    }

    // evidence
    let wall = t0.elapsed().as_secs_f64();
    let distinct = main.fingerprints.len() as u64;
    let ev = json!({
        "property_id": c.id(),
        "tier": tier_name(o.tier),
        "seed": o.seed,
        "level": c.level(),
        "wall_s": wall,
        "violations": reported.len(),
        "coverage": {
            "evaluations": st.runs,
            "distinct_nontrivial": distinct,
            "rule": c.rule(),
            "samples": st.samples,
            "exhaustive": c.exhaustive(),
            "nontrivial_runs": st.nontrivial,
            "runs_per_hour": (st.runs as f64 / wall.max(0.001) * 3600.0) as u64,
            "run_index_range": [0, total],
            "simulated_time_s": st.sim_ns_total as f64 / 1e9,
            "steps_total": st.steps_total,
            "steps_max": st.steps_max,
            "context_switches": st.ctx_switches,
            "scheduler_choice_points": st.choice_points,
            "max_live_threads_in_a_run": st.max_threads,
            "run_outcomes": st.outcomes,
            "fault_fired": st.faults,
            "probes": st.probes,
            "exercised": st.tags,
            "scheduler_mix": st.strategies,
            "inconclusive": st.inconclusive,
            "stopped_early_after_violations": st.stopped_early,
            "inconclusive_sample": st.inconclusive_sample,
            "determinism_selfcheck": {"runs": ha.len(), "layouts": 2, "mismatches": 0},
            "library_panics_seen": st.lib_panics,
            "known_findings_matched": known_matched,
            "violations_reported": reported,
            "components_real": ["tiny-http (all of src/, built from /repo's working tree with --cfg tiny_http_verif)", "chunked_transfer", "ascii", "httpdate", "std::io::{BufReader,BufWriter,copy}"],
            "components_stub": ["std::sync::{Mutex,Condvar,mpsc,atomic} -> simrt::sync", "std::thread -> simrt::thread", "std::time::{Instant,SystemTime} -> simrt::time (virtual clock)", "TcpListener/TcpStream/UnixListener/UnixStream -> simrt::net (in-memory transport)"],
            "uncovered": c.uncovered(),
        },
        "assumptions": c.assumptions(),
    });
    let _ = std::fs::create_dir_all(format!("{}/evidence", VERIF));
    let evp = format!("{}/evidence/{}.json", VERIF, c.id());
    std::fs::write(&evp, serde_json::to_string_pretty(&ev).unwrap()).unwrap();
    println!(
        "{}: {} runs, {} non-trivial ({} distinct interleavings), {} inconclusive, {:.1} s wall, {:.0} runs/s, {:.0} virtual s; evidence {}",
        c.id(), st.runs, st.nontrivial, distinct, st.inconclusive, wall, st.runs as f64 / wall.max(0.001), st.sim_ns_total as f64 / 1e9, evp
    );
    if exit == 0 {
        println!("RESULT property={} held on everything explored", c.id());
    }
    exit
}

/// Signature of an abort: what is unusual in the scenario's input.
fn crash_signature(sc: &Scenario) -> String {
    let mut big = false;
    for c in &sc.conns {
        let b = crate::props::gen::sent_bytes(c);
        for r in crate::httpmodel::parse_requests(&b) {
            for (n, v) in &r.headers {
                if n.eq_ignore_ascii_case("Content-Length") && v.len() >= 9 {
                    big = true;
                }
            }
        }
    }
    if big {
        "declared Content-Length far larger than the bytes sent".into()
    } else {
        "process abort".into()
    }
}


/// `dst determinism <prop> <tier> <n>`: run indices [0,n) in three process layouts
/// (1 worker, 5 workers, all cores with a core offset) and compare the interleaving hashes.
pub fn determinism(prop: &str, tier: Tier, seed: u64, n: u64) -> i32 {
    let ncores = std::thread::available_parallelism().map(|n| n.get()).unwrap_or(4);
    let layouts = [(1usize, 0usize), (5, 3), (ncores, 7)];
    let mut maps: Vec<BTreeMap<u64, u64>> = vec![];
    for (w, off) in layouts {
        let b = run_batch(prop, tier, seed, 0, n, w, true, off);
        if !b.harness_errors.is_empty() {
            eprintln!("harness error: {:?}", b.harness_errors);
            return 2;
        }
        maps.push(b.stats.hashes.iter().cloned().collect());
    }
    let mut bad = 0;
    for (k, v) in &maps[0] {
        for m in &maps[1..] {
            if m.get(k) != Some(v) {
                bad += 1;
                if bad < 10 {
                    eprintln!("run index {}: {:016x} vs {:?}", k, v, m.get(k));
                }
            }
        }
    }
    println!("determinism {}: {} run indices x 3 process layouts (1, 5, {} workers), {} mismatches", prop, maps[0].len(), ncores, bad);
    if bad == 0 { 0 } else { 2 }
}
