//! Scenario description: everything a run does besides scheduling choices.
//! A scenario is explicit data (serialisable), so replay files do not depend on
//! the generators staying unchanged.

use serde::{Deserialize, Serialize};
use std::collections::BTreeMap;

/// Byte string, serialised as a readable escaped string.
#[derive(Clone, PartialEq, Eq, Default, PartialOrd, Ord, Hash)]
pub struct B(pub Vec<u8>);

impl B {
    pub fn s(s: &str) -> B {
        B(s.as_bytes().to_vec())
    }
    pub fn esc(&self) -> String {
        esc(&self.0)
    }
}

pub fn esc(b: &[u8]) -> String {
    let mut o = String::with_capacity(b.len() + 8);
    for &c in b {
        match c {
            b'\\' => o.push_str("\\\\"),
            b'\r' => o.push_str("\\r"),
            b'\n' => o.push_str("\\n"),
            0x20..=0x7e => o.push(c as char),
            _ => o.push_str(&format!("\\x{:02x}", c)),
        }
    }
    o
}

pub fn unesc(s: &str) -> Vec<u8> {
    let b = s.as_bytes();
    let mut o = Vec::with_capacity(b.len());
    let mut i = 0;
    while i < b.len() {
        if b[i] == b'\\' && i + 1 < b.len() {
            match b[i + 1] {
                b'\\' => {
                    o.push(b'\\');
                    i += 2;
                }
                b'r' => {
                    o.push(b'\r');
                    i += 2;
                }
                b'n' => {
                    o.push(b'\n');
                    i += 2;
                }
                b'x' if i + 3 < b.len() => {
                    let h = std::str::from_utf8(&b[i + 2..i + 4]).unwrap_or("00");
                    o.push(u8::from_str_radix(h, 16).unwrap_or(0));
                    i += 4;
                }
                _ => {
                    o.push(b[i]);
                    i += 1;
                }
            }
        } else {
            o.push(b[i]);
            i += 1;
        }
    }
    o
}

impl std::fmt::Debug for B {
    fn fmt(&self, f: &mut std::fmt::Formatter<'_>) -> std::fmt::Result {
        if self.0.len() > 200 {
            write!(f, "b\"{}...\"({} bytes)", esc(&self.0[..200]), self.0.len())
        } else {
            write!(f, "b\"{}\"", esc(&self.0))
        }
    }
}

impl Serialize for B {
    fn serialize<S: serde::Serializer>(&self, s: S) -> Result<S::Ok, S::Error> {
        s.serialize_str(&esc(&self.0))
    }
}
impl<'de> Deserialize<'de> for B {
    fn deserialize<D: serde::Deserializer<'de>>(d: D) -> Result<B, D::Error> {
        let s = String::deserialize(d)?;
        Ok(B(unesc(&s)))
    }
}

#[derive(Clone, Debug, Serialize, Deserialize, PartialEq)]
pub enum Strat {
    Random,
    Pct { depth: u32, est_len: u64 },
    Burst { stay_permille: u32 },
}

#[derive(Clone, Debug, Serialize, Deserialize)]
pub struct Knobs {
    pub strategy: Strat,
    pub racy_time: bool,
    pub spurious: bool,
    pub unix_listener: bool,
    pub wall_base_secs: u64,
    /// give every simulated thread the 2 MiB stack std gives spawned threads (default: 256 KiB)
    #[serde(default)]
    pub std_stack: bool,
}

impl Default for Knobs {
    fn default() -> Knobs {
        Knobs {
            strategy: Strat::Random,
            racy_time: false,
            spurious: false,
            unix_listener: false,
            wall_base_secs: 1_000_000_000,
            std_stack: false,
        }
    }
}

#[derive(Clone, Debug, Serialize, Deserialize)]
pub enum ClientStep {
    /// one segment
    Send(B),
    Pause(u64),
    /// wait until the received bytes contain `pattern` at least `count` times
    AwaitBytes { pattern: B, count: usize },
    /// wait until `n` complete final responses have been received (cheap scan for "HTTP/1." status lines is not reliable; this counts blank-line-terminated heads with non-1xx status)
    AwaitFinals(usize),
    HalfClose,
    Close { budget: usize, reset_err: bool },
    Reset,
    /// wait until the server has closed its sending side
    AwaitEof,
    /// wait until at least this many response bytes were received
    AwaitLen(usize),
    /// wait until, after the first k final responses, at least one further complete message
    /// (interim or final) has arrived, or the server has closed
    AwaitAfterFinals(usize),
    /// move the virtual wall clock
    JumpWall(i64),
}

#[derive(Clone, Debug, Serialize, Deserialize, Default)]
pub struct ConnScript {
    /// removed by the minimiser: the connection is never opened
    #[serde(default)]
    pub disabled: bool,
    pub open_at: u64,
    pub coalesce: bool,
    /// limit on unread response bytes in flight; needs `drain`
    pub window: Option<usize>,
    pub short_writes: Option<usize>,
    /// a drain thread consuming `chunk` bytes every `every` ns (when window is set)
    pub drain: Option<(usize, u64)>,
    pub steps: Vec<ClientStep>,
}

#[derive(Clone, Debug, Serialize, Deserialize, PartialEq)]
pub enum RecvCall {
    Recv,
    RecvTimeout(u64),
    TryRecv,
    IterNext,
    Sleep(u64),
    /// recv() until it returns an error (unblocked)
    RecvLoop,
}

#[derive(Clone, Debug, Serialize, Deserialize, PartialEq)]
pub enum Dispatch {
    /// run the program on the receiving thread
    Inline,
    /// one handler thread per request
    Spawn,
    /// collect up to k requests (while calls last), then run their programs in arrival order
    Hold(usize),
}

#[derive(Clone, Debug, Serialize, Deserialize)]
pub struct Receiver {
    pub start_at: u64,
    pub calls: Vec<RecvCall>,
    pub dispatch: Dispatch,
}

#[derive(Clone, Debug, Serialize, Deserialize, PartialEq)]
pub enum BodyPlan {
    /// do not touch the body
    None,
    /// call as_reader() n times without reading
    Touch(usize),
    /// read with these buffer sizes, one read each, then stop
    Sizes(Vec<usize>),
    /// read with buffers of `buf` bytes until Ok(0) or an error
    ToEof { buf: usize },
    /// one read per size, then continue with `buf`-sized reads until Ok(0) or an error
    Mixed { sizes: Vec<usize>, buf: usize },
    /// read exactly this many bytes (or to the end if the body is shorter), in 4096-byte reads
    Exactly(usize),
}

#[derive(Clone, Debug, Serialize, Deserialize, PartialEq)]
pub enum Ctor {
    FromString,
    FromData,
    Empty,
    /// Response::new with a reader that hands out the body in `pieces`
    New,
    /// Response::from_file on a real temporary file holding the body
    FromFile,
}

#[derive(Clone, Debug, Serialize, Deserialize, PartialEq)]
pub struct RespSpec {
    pub ctor: Ctor,
    pub status: u16,
    /// (name, value, via) via: 0 = constructor list (Ctor::New only), 1 = add_header, 2 = with_header
    pub headers: Vec<(String, String, u8)>,
    pub body: B,
    /// Ctor::New: Some(declared) or None = unknown length
    pub declared: Option<usize>,
    pub threshold: Option<usize>,
    /// piece sizes of the body reader (cycled); empty = whole
    pub pieces: Vec<usize>,
    /// with_data(reader, len) applied afterwards with this body
    pub replace_data: Option<(B, Option<usize>)>,
    /// apply with_data after this many of the non-constructor headers (None = after all of them)
    #[serde(default)]
    pub replace_at: Option<usize>,
    /// Ctor::New: after handing out every byte of the body the reader reports an I/O error
    /// instead of end-of-stream (the complete body has been delivered by then)
    #[serde(default)]
    pub fail_at_end: bool,
}

impl RespSpec {
    pub fn simple(status: u16, body: Vec<u8>) -> RespSpec {
        RespSpec {
            ctor: Ctor::FromData,
            status,
            headers: vec![],
            body: B(body),
            declared: None,
            threshold: None,
            pieces: vec![],
            replace_data: None,
            replace_at: None,
            fail_at_end: false,
        }
    }
}

#[derive(Clone, Debug, Serialize, Deserialize, PartialEq)]
pub enum StreamOp {
    Write(B),
    Flush,
    /// read up to n bytes once
    Read(usize),
    ReadToEof,
}

#[derive(Clone, Debug, Serialize, Deserialize, PartialEq)]
pub enum Finish {
    Respond(RespSpec),
    /// into_writer, write the parts (flush after each if `flush`), drop
    Writer { parts: Vec<B>, flush: bool },
    Upgrade { proto: String, resp: RespSpec, ops: Vec<StreamOp> },
    Drop,
    /// panic while holding the request
    Panic,
}

#[derive(Clone, Debug, Serialize, Deserialize, PartialEq)]
pub struct Program {
    pub delay: u64,
    /// wait until these requests have been finished by their handlers
    pub after: Vec<String>,
    pub body: BodyPlan,
    pub delay2: u64,
    pub finish: Finish,
}

impl Program {
    pub fn respond(status: u16, body: Vec<u8>) -> Program {
        Program {
            delay: 0,
            after: vec![],
            body: BodyPlan::None,
            delay2: 0,
            finish: Finish::Respond(RespSpec::simple(status, body)),
        }
    }
}

#[derive(Clone, Debug, Serialize, Deserialize, PartialEq)]
pub enum DriverStep {
    SleepUntil(u64),
    Sleep(u64),
    Quiesce,
    Settle,
    Unblock(usize),
    /// stop receivers (unblock + join), then drop the Server
    DropServer,
    /// try to connect; the result is recorded under this label
    Connect(String),
    /// record a snapshot (threads, per-connection progress) under this label
    Snapshot(String),
    /// every connection that is still open half-closes
    CloseClients,
    JumpWall(i64),
}

#[derive(Clone, Debug, Serialize, Deserialize)]
pub struct Scenario {
    pub knobs: Knobs,
    pub conns: Vec<ConnScript>,
    pub receivers: Vec<Receiver>,
    pub programs: BTreeMap<String, Program>,
    pub default_program: Program,
    /// steps before the standard epilogue
    pub driver: Vec<DriverStep>,
    /// free-form description of what the generator intended (for humans)
    pub note: String,
}

impl Scenario {
    pub fn new() -> Scenario {
        Scenario {
            knobs: Knobs::default(),
            conns: vec![],
            receivers: vec![],
            programs: BTreeMap::new(),
            default_program: Program::respond(200, b"default".to_vec()),
            driver: vec![],
            note: String::new(),
        }
    }
}
