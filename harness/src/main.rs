//! dst — deterministic simulation testing of tiny-http.
//!
//!   dst check <Cxx> [quick|thorough] [--runs N] [--workers N]
//!   dst worker <Cxx> <tier> <seed> <start> <end> <stride> <hashes> <wid>     (internal)
//!   dst replay <file> [-v]
//!   dst one <Cxx> <tier> <index> [-v]         run one generated scenario in-process

mod allocmon;
mod engine;

#[global_allocator]
static GLOBAL: allocmon::Counting = allocmon::Counting;

mod httpmodel;
mod orch;
mod props;
mod rng;
mod scenario;

fn env_u64(name: &str, default: u64) -> u64 {
    std::env::var(name)
        .ok()
        .and_then(|s| s.trim().parse().ok())
        .unwrap_or(default)
}

fn main() {
    let args: Vec<String> = std::env::args().collect();
    let cmd = args.get(1).map(|s| s.as_str()).unwrap_or("");
    let code = match cmd {
        "check" => {
            let prop = args.get(2).cloned().unwrap_or_default();
            let mut tier = std::env::var("VERIF_TIER").unwrap_or_else(|_| "quick".into());
            let mut runs = None;
            let mut workers = std::thread::available_parallelism().map(|n| n.get()).unwrap_or(4);
            let mut i = 3;
            while i < args.len() {
                match args[i].as_str() {
                    "quick" | "thorough" => tier = args[i].clone(),
                    "--runs" => {
                        runs = args.get(i + 1).and_then(|s| s.parse().ok());
                        i += 1;
                    }
                    "--workers" => {
                        workers = args.get(i + 1).and_then(|s| s.parse().ok()).unwrap_or(workers);
                        i += 1;
                    }
                    _ => {}
                }
                i += 1;
            }
            orch::check(&orch::CheckOpts {
                prop,
                tier: orch::tier_of(&tier),
                seed: env_u64("VERIF_SEED", 1),
                workers,
                runs_override: runs,
            })
        }
        "worker" => {
            let a = |i: usize| args.get(i).cloned().unwrap_or_default();
            orch::worker(
                &a(2),
                orch::tier_of(&a(3)),
                a(4).parse().unwrap_or(1),
                a(5).parse().unwrap_or(0),
                a(6).parse().unwrap_or(0),
                a(7).parse().unwrap_or(1),
                a(8) == "1",
                a(9).parse().unwrap_or(0),
            )
        }
        "determinism" => {
            let prop = args.get(2).cloned().unwrap_or_default();
            let tier = orch::tier_of(args.get(3).map(|s| s.as_str()).unwrap_or("quick"));
            let n: u64 = args.get(4).and_then(|s| s.parse().ok()).unwrap_or(2000);
            orch::determinism(&prop, tier, env_u64("VERIF_SEED", 1), n)
        }
        "dump-corpus" => {
            println!("{}", serde_json::to_string(&props::c13::dump_corpus()).unwrap());
            0
        }
        "replay" => {
            let v = args.iter().any(|a| a == "-v");
            orch::replay_file(args.get(2).map(|s| s.as_str()).unwrap_or(""), v)
        }
        "one" => {
            let prop = args.get(2).cloned().unwrap_or_default();
            let tier = orch::tier_of(args.get(3).map(|s| s.as_str()).unwrap_or("quick"));
            let index: u64 = args.get(4).and_then(|s| s.parse().ok()).unwrap_or(0);
            let verbose = args.iter().any(|a| a == "-v");
            match props::by_id(&prop) {
                None => 2,
                Some(c) => {
                    let (rs, sc) = orch::gen_scenario(c, env_u64("VERIF_SEED", 1), tier, index);
                    println!("{}", serde_json::to_string_pretty(&sc).unwrap());
                    let out = engine::run_scenario(&sc, rs, None, false, verbose);
                    if verbose {
                        for l in &out.report.log {
                            println!("{}", l);
                        }
                    }
                    for e in &out.obs.events {
                        println!("{:?}", e);
                    }
                    for (i, c) in out.obs.conns.iter().enumerate() {
                        println!("conn {} received {:?} fin={:?}", i, c.received, c.server_fin);
                    }
                    println!("outcome {:?} steps {} now {} panics {:?}", out.report.outcome, out.report.steps, out.report.now, out.report.panics);
                    for t in &out.report.threads {
                        if !t.finished {
                            println!("unfinished thread {:?} {} last_op={}", t.name, t.state, t.last_op);
                        }
                    }
                    let v = orch::check_run(c, &sc, &out);
                    println!("verdict: {:?}", v);
                    if v.violations.is_empty() { 0 } else { 1 }
                }
            }
        }
        _ => {
            eprintln!("usage: dst check|replay|one ...");
            2
        }
    };
    std::process::exit(code);
}
