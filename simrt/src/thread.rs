//! `std::thread` look-alike: real OS threads, registered with the world and run
//! one at a time.

use crate::world::{self, Parker, Reason};
use std::sync::{Arc, Mutex as StdMutex};
use std::time::Duration;

pub struct JoinHandle<T> {
    tid: Option<usize>,
    out: Arc<StdMutex<Option<std::thread::Result<T>>>>,
    os: Option<std::thread::JoinHandle<()>>,
}

impl<T> JoinHandle<T> {
    pub fn join(mut self) -> std::thread::Result<T> {
        match (world::current(), self.tid) {
            (Some((w, me)), Some(tid)) => {
                w.sched_point(me, "thread.join");
                loop {
                    if let Some(r) = self.out.lock().unwrap().take() {
                        return r;
                    }
                    w.block(me, Reason::Join(tid), None);
                }
            }
            _ => {
                if let Some(os) = self.os.take() {
                    let _ = os.join();
                }
                self.out.lock().unwrap().take().expect("thread result")
            }
        }
    }

    pub fn is_finished(&self) -> bool {
        self.out.lock().unwrap().is_some()
    }

    /// simulated thread id
    pub fn tid(&self) -> Option<usize> {
        self.tid
    }
}

pub fn spawn<F, T>(f: F) -> JoinHandle<T>
where
    F: FnOnce() -> T + Send + 'static,
    T: Send + 'static,
{
    spawn_inner(None, f)
}

/// Spawn with a name; the harness names all of its own threads, so unnamed
/// threads are exactly the ones created by the code under test.
pub fn spawn_named<F, T>(name: &str, f: F) -> JoinHandle<T>
where
    F: FnOnce() -> T + Send + 'static,
    T: Send + 'static,
{
    spawn_inner(Some(name.to_string()), f)
}

fn spawn_inner<F, T>(name: Option<String>, f: F) -> JoinHandle<T>
where
    F: FnOnce() -> T + Send + 'static,
    T: Send + 'static,
{
    let out = Arc::new(StdMutex::new(None));
    match world::current() {
        Some((w, me)) => {
            w.sched_point(me, "thread.spawn");
            let parker = Arc::new(Parker::new());
            let stack = w.with(|g| g.cfg.stack_size);
            // the id is fixed before the OS thread exists; the child parks until scheduled
            let tid = {
                let mut g = w.st.lock().unwrap();
                world::register_thread(&w, &mut g, name, parker.clone())
            };
            let (w2, p2, o2) = (w.clone(), parker.clone(), out.clone());
            let os = std::thread::Builder::new()
                .stack_size(stack)
                .spawn(move || world::thread_main(w2, tid, p2, Box::new(f), o2))
                .expect("simrt: OS thread spawn failed");
            parker.set_thread(os.thread().clone());
            // a child scheduled before set_thread() ran cannot exist: we hold the baton
            drop(os);
            JoinHandle {
                tid: Some(tid),
                out,
                os: None,
            }
        }
        None => {
            let o2 = out.clone();
            let os = std::thread::spawn(move || {
                let r = std::panic::catch_unwind(std::panic::AssertUnwindSafe(f));
                *o2.lock().unwrap() = Some(r);
            });
            JoinHandle {
                tid: None,
                out,
                os: Some(os),
            }
        }
    }
}

pub fn sleep(d: Duration) {
    match world::current() {
        Some((w, me)) => {
            w.sched_point(me, "thread.sleep");
            let dl = w.with(|g| g.now.saturating_add(d.as_nanos() as u64));
            w.block(me, Reason::Sleep, Some(dl));
        }
        None => std::thread::sleep(d),
    }
}

pub fn yield_now() {
    world::sched("thread.yield");
}

/// Sleep until the absolute virtual instant `t_ns` (no-op if already past).
pub fn sleep_until_ns(t_ns: u64) {
    if let Some((w, me)) = world::current() {
        w.sched_point(me, "thread.sleep_until");
        let now = w.with(|g| g.now);
        if t_ns > now {
            w.block(me, Reason::Sleep, Some(t_ns));
        }
    }
}


/// `std::thread::Builder` look-alike (the stack size is the world's, the name is kept).
#[derive(Default, Debug)]
pub struct Builder {
    name: Option<String>,
}

impl Builder {
    pub fn new() -> Builder {
        Builder { name: None }
    }
    pub fn name(mut self, name: String) -> Builder {
        // threads named by the code under test stay "library" threads for the thread accounting:
        // the name is recorded with a prefix the harness never uses
        self.name = Some(name);
        self
    }
    pub fn stack_size(self, _size: usize) -> Builder {
        self
    }
    pub fn spawn<F, T>(self, f: F) -> std::io::Result<JoinHandle<T>>
    where
        F: FnOnce() -> T + Send + 'static,
        T: Send + 'static,
    {
        let _ = self.name;
        Ok(spawn(f))
    }
}
