//! Virtual clocks.

use crate::world;
use std::ops::{Add, Sub};
use std::time::Duration;

#[derive(Clone, Copy, Debug, PartialEq, Eq, PartialOrd, Ord, Hash)]
pub struct Instant(u64);

impl Instant {
    pub fn now() -> Instant {
        world::sched("instant.now");
        Instant(world::now_ns())
    }
    pub fn elapsed(&self) -> Duration {
        world::sched("instant.elapsed");
        Duration::from_nanos(world::now_ns().saturating_sub(self.0))
    }
    pub fn duration_since(&self, earlier: Instant) -> Duration {
        Duration::from_nanos(self.0.saturating_sub(earlier.0))
    }
    pub fn as_nanos(&self) -> u64 {
        self.0
    }
    pub fn checked_duration_since(&self, earlier: Instant) -> Option<Duration> {
        self.0.checked_sub(earlier.0).map(Duration::from_nanos)
    }
    pub fn saturating_duration_since(&self, earlier: Instant) -> Duration {
        Duration::from_nanos(self.0.saturating_sub(earlier.0))
    }
    pub fn checked_add(&self, d: Duration) -> Option<Instant> {
        self.0.checked_add(d.as_nanos() as u64).map(Instant)
    }
    pub fn checked_sub(&self, d: Duration) -> Option<Instant> {
        self.0.checked_sub(d.as_nanos() as u64).map(Instant)
    }
}

impl std::ops::AddAssign<Duration> for Instant {
    fn add_assign(&mut self, d: Duration) {
        self.0 = self.0.saturating_add(d.as_nanos() as u64);
    }
}
impl std::ops::SubAssign<Duration> for Instant {
    fn sub_assign(&mut self, d: Duration) {
        self.0 = self.0.saturating_sub(d.as_nanos() as u64);
    }
}

impl Add<Duration> for Instant {
    type Output = Instant;
    fn add(self, d: Duration) -> Instant {
        Instant(self.0.saturating_add(d.as_nanos() as u64))
    }
}
impl Sub<Duration> for Instant {
    type Output = Instant;
    fn sub(self, d: Duration) -> Instant {
        Instant(self.0.saturating_sub(d.as_nanos() as u64))
    }
}
impl Sub<Instant> for Instant {
    type Output = Duration;
    fn sub(self, o: Instant) -> Duration {
        Duration::from_nanos(self.0.saturating_sub(o.0))
    }
}

/// Stand-in for `std::time::SystemTime`: only `now()` differs, and it returns a
/// real `std::time::SystemTime` computed from the virtual clock.
pub struct SystemTime;

impl SystemTime {
    pub const UNIX_EPOCH: std::time::SystemTime = std::time::SystemTime::UNIX_EPOCH;

    #[allow(clippy::new_ret_no_self)]
    pub fn now() -> std::time::SystemTime {
        match world::current() {
            Some((w, me)) => {
                w.sched_point(me, "systemtime.now");
                let (base, now) = w.with(|g| (g.cfg.wall_base_secs, g.now));
                std::time::SystemTime::UNIX_EPOCH
                    + Duration::from_secs(base)
                    + Duration::from_nanos(now)
            }
            None => std::time::SystemTime::now(),
        }
    }
}

/// The virtual wall clock as seconds since the epoch (what `SystemTime::now()` would give).
pub fn wall_secs() -> u64 {
    match world::current() {
        Some((w, _)) => w.with(|g| g.cfg.wall_base_secs + g.now / 1_000_000_000),
        None => 0,
    }
}
