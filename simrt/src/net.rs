//! In-memory stream transport: listener, connect, full-duplex byte pipes with
//! segment boundaries, half-close, close, reset, send window, short writes.
//!
//! Pipe 0 of a connection is written by the client, pipe 1 by the server.

use crate::world::{self, Reason};
use std::collections::{BTreeMap, VecDeque};
use std::io::{self, ErrorKind, Read, Write};
use std::net::{IpAddr, Ipv4Addr, Shutdown, SocketAddr};
use std::sync::{Arc, Mutex as StdMutex};

#[derive(Clone, Copy, Debug, PartialEq, Eq)]
pub enum Kind {
    /// peers have a socket address
    Tcp,
    /// peers are unnamed
    Unix,
}

#[derive(Clone, Debug, PartialEq, Eq)]
pub struct Addr {
    pub id: u64,
    pub kind: Kind,
}

impl std::fmt::Display for Addr {
    fn fmt(&self, f: &mut std::fmt::Formatter<'_>) -> std::fmt::Result {
        write!(f, "sim:{}", self.id)
    }
}

#[derive(Default)]
pub(crate) struct NetWorld {
    listeners: BTreeMap<u64, Arc<ListenerInner>>,
    next_conn: u64,
}

struct LState {
    backlog: VecDeque<Arc<Conn>>,
    closed: bool,
}

struct ListenerInner {
    id: u64,
    kind: Kind,
    st: StdMutex<LState>,
}

pub struct Listener {
    inner: Arc<ListenerInner>,
}

#[derive(Clone, Copy, Debug, PartialEq, Eq)]
pub struct Mark {
    /// offset in the log at which this write starts
    pub offset: usize,
    pub len: usize,
    pub seq: u64,
    pub now: u64,
}

#[derive(Default)]
struct Pipe {
    segs: VecDeque<Vec<u8>>,
    log: Vec<u8>,
    marks: Vec<Mark>,
    fin: bool,
    fin_at: Option<(u64, u64)>,
    reset: bool,
    rd_shut: bool,
    capacity: Option<usize>,
    inflight: usize,
    coalesce: bool,
    short_write: Option<usize>,
    log_only: bool,
    reader_gone: bool,
    reader_gone_at: Option<usize>,
    gone_budget: usize,
    gone_reset: bool,
    /// bytes that were waiting to be read when the reading side shut down / closed the socket
    /// (a kernel answers close() with unread data by a reset instead of an orderly release)
    dropped_unread: usize,
}

struct ConnState {
    pipes: [Pipe; 2],
    handles: [usize; 2],
}

pub(crate) struct Conn {
    id: u64,
    peer: Option<SocketAddr>,
    st: StdMutex<ConnState>,
}

pub struct Stream {
    conn: Arc<Conn>,
    side: usize,
}

impl std::fmt::Debug for Stream {
    fn fmt(&self, f: &mut std::fmt::Formatter<'_>) -> std::fmt::Result {
        write!(f, "SimStream(conn {}, side {})", self.conn.id, self.side)
    }
}

fn need_world() -> (Arc<world::World>, usize) {
    world::current().expect("simrt::net used outside a simulated world")
}

impl Listener {
    pub fn bind(kind: Kind) -> Listener {
        let (w, me) = need_world();
        w.sched_point(me, "net.bind");
        let inner = w.with(|g| {
            let id = g.new_obj();
            let l = Arc::new(ListenerInner {
                id,
                kind,
                st: StdMutex::new(LState {
                    backlog: VecDeque::new(),
                    closed: false,
                }),
            });
            g.net.listeners.insert(id, l.clone());
            l
        });
        Listener { inner }
    }

    pub fn local_addr(&self) -> io::Result<Addr> {
        Ok(Addr {
            id: self.inner.id,
            kind: self.inner.kind,
        })
    }

    pub fn accept(&self) -> io::Result<(Stream, Option<SocketAddr>)> {
        let (w, me) = need_world();
        w.sched_point(me, "net.accept");
        loop {
            let c = self.inner.st.lock().unwrap().backlog.pop_front();
            if let Some(conn) = c {
                conn.st.lock().unwrap().handles[1] += 1;
                let peer = conn.peer;
                return Ok((Stream { conn, side: 1 }, peer));
            }
            w.block(me, Reason::Accept(self.inner.id), None);
        }
    }
}

impl Drop for Listener {
    fn drop(&mut self) {
        let pending: Vec<Arc<Conn>> = {
            let mut st = self.inner.st.lock().unwrap();
            st.closed = true;
            st.backlog.drain(..).collect()
        };
        if let Some((w, _)) = world::current() {
            let id = self.inner.id;
            w.with(|g| {
                g.net.listeners.remove(&id);
            });
            for c in pending {
                {
                    let mut st = c.st.lock().unwrap();
                    st.pipes[1].reset = true;
                    st.pipes[1].fin = true;
                    st.pipes[0].reader_gone = true;
                    st.pipes[0].gone_reset = true;
                }
                let cid = c.id;
                w.with(|g| {
                    g.wake_all(Reason::ClientWait(cid));
                    g.wake_all(Reason::NetRead(cid * 2));
                });
            }
        }
    }
}

/// Connect to a listener.  Fails with `ConnectionRefused` once the listener is gone.
pub fn connect(addr: &Addr) -> io::Result<Stream> {
    let (w, me) = need_world();
    w.sched_point(me, "net.connect");
    let l = w.with(|g| g.net.listeners.get(&addr.id).cloned());
    let l = match l {
        Some(l) => l,
        None => {
            return Err(io::Error::new(
                ErrorKind::ConnectionRefused,
                "simulated listener is closed",
            ))
        }
    };
    let cid = w.with(|g| {
        g.net.next_conn += 1;
        g.net.next_conn
    });
    let peer = match l.kind {
        Kind::Tcp => Some(SocketAddr::new(
            IpAddr::V4(Ipv4Addr::new(10, 0, (cid >> 8) as u8, cid as u8)),
            40000 + (cid % 20000) as u16,
        )),
        Kind::Unix => None,
    };
    let conn = Arc::new(Conn {
        id: cid,
        peer,
        st: StdMutex::new(ConnState {
            pipes: [Pipe::default(), Pipe::default()],
            handles: [1, 0],
        }),
    });
    {
        let mut st = l.st.lock().unwrap();
        if st.closed {
            return Err(io::Error::new(
                ErrorKind::ConnectionRefused,
                "simulated listener is closed",
            ));
        }
        st.backlog.push_back(conn.clone());
    }
    let lid = l.id;
    w.with(|g| g.wake_all(Reason::Accept(lid)));
    Ok(Stream { conn, side: 0 })
}

impl Stream {
    pub fn peer_addr(&self) -> io::Result<Option<SocketAddr>> {
        if self.side == 1 {
            // as with the kernel (getpeername => ENOTCONN): the peer of a connection that the
            // client has already reset can no longer be asked for
            if self.conn.st.lock().unwrap().pipes[0].reset {
                if let Some((w, _)) = world::current() {
                    w.with(|g| g.fault("peer_addr_fails_on_reset_connection"));
                }
                return Err(io::Error::new(ErrorKind::NotConnected, "simulated: transport endpoint is not connected"));
            }
            Ok(self.conn.peer)
        } else {
            Ok(None)
        }
    }

    pub fn conn_id(&self) -> u64 {
        self.conn.id
    }

    pub fn try_clone(&self) -> io::Result<Stream> {
        self.conn.st.lock().unwrap().handles[self.side] += 1;
        Ok(Stream {
            conn: self.conn.clone(),
            side: self.side,
        })
    }

    fn wake_peers(&self) {
        if let Some((w, _)) = world::current() {
            let cid = self.conn.id;
            w.with(|g| {
                g.wake_all(Reason::NetRead(cid * 2));
                g.wake_all(Reason::NetRead(cid * 2 + 1));
                g.wake_all(Reason::NetWrite(cid * 2));
                g.wake_all(Reason::NetWrite(cid * 2 + 1));
                g.wake_all(Reason::ClientWait(cid));
            });
        }
    }

    fn stamp() -> (u64, u64) {
        match world::current() {
            Some((w, _)) => w.with(|g| (g.steps, g.now)),
            None => (0, 0),
        }
    }

    pub fn shutdown(&self, how: Shutdown) -> io::Result<()> {
        world::sched("net.shutdown");
        let stamp = Self::stamp();
        {
            let mut st = self.conn.st.lock().unwrap();
            if matches!(how, Shutdown::Read | Shutdown::Both) {
                let p = &mut st.pipes[1 - self.side];
                p.rd_shut = true;
                p.dropped_unread += p.segs.iter().map(|s| s.len()).sum::<usize>();
                p.segs.clear();
            }
            if matches!(how, Shutdown::Write | Shutdown::Both) {
                let p = &mut st.pipes[self.side];
                if !p.fin {
                    p.fin = true;
                    p.fin_at = Some(stamp);
                }
            }
        }
        self.wake_peers();
        Ok(())
    }

    fn do_read(&self, buf: &mut [u8]) -> io::Result<usize> {
        let (w, me) = need_world();
        w.sched_point(me, "net.read");
        if buf.is_empty() {
            return Ok(0);
        }
        let rid = self.conn.id * 2 + self.side as u64;
        loop {
            {
                let mut st = self.conn.st.lock().unwrap();
                let p = &mut st.pipes[1 - self.side];
                if p.rd_shut {
                    return Ok(0);
                }
                if p.reset {
                    p.segs.clear();
                    return Err(io::Error::new(
                        ErrorKind::ConnectionReset,
                        "simulated connection reset by peer",
                    ));
                }
                if !p.segs.is_empty() {
                    let mut n = 0;
                    while n < buf.len() {
                        let seg = match p.segs.front_mut() {
                            Some(s) => s,
                            None => break,
                        };
                        let k = seg.len().min(buf.len() - n);
                        buf[n..n + k].copy_from_slice(&seg[..k]);
                        n += k;
                        if k == seg.len() {
                            p.segs.pop_front();
                        } else {
                            seg.drain(..k);
                        }
                        if !p.coalesce {
                            break;
                        }
                    }
                    p.inflight = p.inflight.saturating_sub(n);
                    drop(st);
                    let cid = self.conn.id;
                    let wside = 1 - self.side as u64;
                    w.with(|g| g.wake_all(Reason::NetWrite(cid * 2 + wside)));
                    return Ok(n);
                }
                if p.fin {
                    return Ok(0);
                }
            }
            w.block(me, Reason::NetRead(rid), None);
        }
    }

    fn do_write(&self, buf: &[u8]) -> io::Result<usize> {
        let (w, me) = need_world();
        w.sched_point(me, "net.write");
        if buf.is_empty() {
            return Ok(0);
        }
        let wid = self.conn.id * 2 + self.side as u64;
        loop {
            {
                let mut st = self.conn.st.lock().unwrap();
                let p = &mut st.pipes[self.side];
                if p.fin {
                    return Err(io::Error::new(
                        ErrorKind::BrokenPipe,
                        "write after shutdown(Write)",
                    ));
                }
                if p.reader_gone {
                    if p.gone_budget == 0 {
                        let kind = if p.gone_reset {
                            ErrorKind::ConnectionReset
                        } else {
                            ErrorKind::BrokenPipe
                        };
                        drop(st);
                        w.with(|g| g.fault("write_error_client_gone"));
                        return Err(io::Error::new(kind, "simulated peer is gone"));
                    }
                    let n = buf.len().min(p.gone_budget);
                    p.gone_budget -= n;
                    let (seq, now) = w.with(|g| (g.steps, g.now));
                    p.marks.push(Mark {
                        offset: p.log.len(),
                        len: n,
                        seq,
                        now,
                    });
                    p.log.extend_from_slice(&buf[..n]);
                    drop(st);
                    w.with(|g| g.fault("write_into_closed_peer_buffered"));
                    return Ok(n);
                }
                let space = match p.capacity {
                    Some(c) => c.saturating_sub(p.inflight),
                    None => usize::MAX,
                };
                if space > 0 {
                    let mut n = buf.len().min(space);
                    if n < buf.len() {
                        w.with(|g| g.fault("write_limited_by_window"));
                    }
                    if let Some(limit) = p.short_write {
                        let max = n.min(limit.max(1));
                        if max > 1 {
                            let k = 1 + w.with(|g| g.choose(max, max - 1));
                            if k < n {
                                w.with(|g| g.fault("short_write"));
                            }
                            n = n.min(k);
                        } else {
                            if n > 1 {
                                w.with(|g| g.fault("short_write"));
                            }
                            n = 1;
                        }
                    }
                    let (seq, now) = w.with(|g| (g.steps, g.now));
                    p.marks.push(Mark {
                        offset: p.log.len(),
                        len: n,
                        seq,
                        now,
                    });
                    p.log.extend_from_slice(&buf[..n]);
                    if !p.log_only {
                        p.segs.push_back(buf[..n].to_vec());
                    }
                    p.inflight += n;
                    drop(st);
                    let cid = self.conn.id;
                    let rside = 1 - self.side as u64;
                    w.with(|g| {
                        g.wake_all(Reason::NetRead(cid * 2 + rside));
                        g.wake_all(Reason::ClientWait(cid));
                    });
                    return Ok(n);
                }
            }
            w.with(|g| g.fault("write_blocked_on_window"));
            w.block(me, Reason::NetWrite(wid), None);
        }
    }
}

impl Read for Stream {
    fn read(&mut self, buf: &mut [u8]) -> io::Result<usize> {
        self.do_read(buf)
    }
}
impl Write for Stream {
    fn write(&mut self, buf: &[u8]) -> io::Result<usize> {
        self.do_write(buf)
    }
    fn flush(&mut self) -> io::Result<()> {
        Ok(())
    }
}

impl Drop for Stream {
    fn drop(&mut self) {
        let last = {
            let mut st = self.conn.st.lock().unwrap();
            st.handles[self.side] = st.handles[self.side].saturating_sub(1);
            st.handles[self.side] == 0
        };
        if last {
            let stamp = Self::stamp();
            {
                let mut st = self.conn.st.lock().unwrap();
                let me = self.side;
                if !st.pipes[me].fin {
                    st.pipes[me].fin = true;
                    st.pipes[me].fin_at = Some(stamp);
                }
                st.pipes[1 - me].rd_shut = true;
                let n: usize = st.pipes[1 - me].segs.iter().map(|s| s.len()).sum();
                st.pipes[1 - me].dropped_unread += n;
                st.pipes[1 - me].segs.clear();
            }
            self.wake_peers();
        }
    }
}

// ---------------------------------------------------------------------------
// The harness' view of a client connection.

/// How the server's writes behave once the client has gone away.
#[derive(Clone, Copy, Debug)]
pub struct Gone {
    /// bytes still accepted (as if buffered by the kernel) before writes fail
    pub budget: usize,
    /// fail with ConnectionReset instead of BrokenPipe
    pub reset: bool,
}

pub struct ClientEnd {
    s: Stream,
}

/// Connect as a harness client.
pub fn connect_client(addr: &Addr) -> io::Result<ClientEnd> {
    let s = connect(addr)?;
    s.conn.st.lock().unwrap().pipes[1].log_only = true;
    Ok(ClientEnd { s })
}

impl ClientEnd {
    pub fn conn_id(&self) -> u64 {
        self.s.conn.id
    }

    pub fn peer_addr_seen_by_server(&self) -> Option<SocketAddr> {
        self.s.conn.peer
    }

    /// Another handle on the same client end (for a separate drain thread).
    pub fn clone_handle(&self) -> ClientEnd {
        ClientEnd {
            s: self.s.try_clone().unwrap(),
        }
    }

    /// Deliver `bytes` as exactly one segment.
    pub fn send(&self, bytes: &[u8]) {
        if bytes.is_empty() {
            return;
        }
        let _ = self.s.do_write(bytes);
    }

    pub fn set_coalesce(&self, on: bool) {
        self.s.conn.st.lock().unwrap().pipes[0].coalesce = on;
    }
    /// Limit how many unread response bytes may be in flight (None = unlimited).
    pub fn set_window(&self, cap: Option<usize>) {
        self.s.conn.st.lock().unwrap().pipes[1].capacity = cap;
    }
    /// Make the transport accept at most a random 1..=limit bytes per server write.
    pub fn set_short_writes(&self, limit: Option<usize>) {
        self.s.conn.st.lock().unwrap().pipes[1].short_write = limit;
    }

    pub fn half_close(&self) {
        let _ = self.s.shutdown(Shutdown::Write);
    }

    /// Orderly full close: FIN towards the server; the server's later writes are
    /// accepted for `gone.budget` bytes and then fail.
    pub fn close(&self, gone: Gone) {
        world::sched("client.close");
        let stamp = Stream::stamp();
        {
            let mut st = self.s.conn.st.lock().unwrap();
            if !st.pipes[0].fin {
                st.pipes[0].fin = true;
                st.pipes[0].fin_at = Some(stamp);
            }
            let p = &mut st.pipes[1];
            if !p.reader_gone {
                p.reader_gone = true;
                p.reader_gone_at = Some(p.log.len());
                p.gone_budget = gone.budget;
                p.gone_reset = gone.reset;
            }
        }
        self.s.wake_peers();
    }

    /// Abortive close: the server's reads fail with ConnectionReset (queued data is
    /// discarded), its writes fail at once.
    pub fn reset(&self) {
        world::sched("client.reset");
        {
            let mut st = self.s.conn.st.lock().unwrap();
            st.pipes[0].reset = true;
            st.pipes[0].segs.clear();
            let p = &mut st.pipes[1];
            if !p.reader_gone {
                p.reader_gone = true;
                p.reader_gone_at = Some(p.log.len());
            }
            p.gone_budget = 0;
            p.gone_reset = true;
        }
        self.s.wake_peers();
    }

    /// Everything the client has received so far.
    pub fn received(&self) -> Vec<u8> {
        let st = self.s.conn.st.lock().unwrap();
        let p = &st.pipes[1];
        let end = p.reader_gone_at.unwrap_or(p.log.len());
        p.log[..end].to_vec()
    }

    /// Everything the server wrote, including what was swallowed after the client left.
    pub fn server_wrote(&self) -> Vec<u8> {
        self.s.conn.st.lock().unwrap().pipes[1].log.clone()
    }

    pub fn received_len(&self) -> usize {
        let st = self.s.conn.st.lock().unwrap();
        let p = &st.pipes[1];
        p.reader_gone_at.unwrap_or(p.log.len())
    }

    pub fn marks(&self) -> Vec<Mark> {
        self.s.conn.st.lock().unwrap().pipes[1].marks.clone()
    }

    /// Has the server closed its sending side (client would read end-of-stream)?
    pub fn server_fin(&self) -> Option<(u64, u64)> {
        let st = self.s.conn.st.lock().unwrap();
        if st.pipes[1].fin {
            Some(st.pipes[1].fin_at.unwrap_or((0, 0)))
        } else {
            None
        }
    }

    pub fn was_reset_by_server(&self) -> bool {
        self.s.conn.st.lock().unwrap().pipes[1].reset
    }

    /// How many bytes of the client's stream were still unread when the server shut down its
    /// reading side or closed the socket.
    pub fn unread_dropped_by_server(&self) -> usize {
        self.s.conn.st.lock().unwrap().pipes[0].dropped_unread
    }

    /// How many bytes of the client's stream the server has not read yet.
    pub fn unread_by_server(&self) -> usize {
        let st = self.s.conn.st.lock().unwrap();
        st.pipes[0].segs.iter().map(|s| s.len()).sum()
    }

    /// Block until more than `seen` bytes were received, or the server closed/reset.
    /// Returns false if woken because nothing more can ever arrive.
    pub fn wait_more(&self, seen: usize) -> bool {
        let (w, me) = need_world();
        w.sched_point(me, "client.wait");
        loop {
            {
                let st = self.s.conn.st.lock().unwrap();
                let p = &st.pipes[1];
                if p.reader_gone {
                    return false;
                }
                if p.log.len() > seen {
                    return true;
                }
                if p.fin || p.reset {
                    return false;
                }
            }
            w.block(me, Reason::ClientWait(self.s.conn.id), None);
        }
    }

    /// Consume up to `n` received bytes (opens the send window again).
    pub fn consume(&self, n: usize) -> usize {
        world::sched("client.consume");
        let k = {
            let mut st = self.s.conn.st.lock().unwrap();
            let p = &mut st.pipes[1];
            let k = n.min(p.inflight);
            p.inflight -= k;
            k
        };
        if k > 0 {
            if let Some((w, _)) = world::current() {
                let cid = self.s.conn.id;
                w.with(|g| g.wake_all(Reason::NetWrite(cid * 2 + 1)));
            }
        }
        k
    }

    pub fn inflight(&self) -> usize {
        self.s.conn.st.lock().unwrap().pipes[1].inflight
    }
}
