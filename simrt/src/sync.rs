//! `std::sync` look-alikes whose blocking and wake-up order is decided by the
//! world's scheduler.  Outside a world (no baton) they degrade to plain,
//! non-scheduled behaviour so that values can be dropped anywhere.

use crate::world::{self, Reason, WakeCause};
use std::sync::atomic::{AtomicBool as StdAtomicBool, AtomicU64, Ordering as AO};
use std::sync::{LockResult, Mutex as StdMutex, MutexGuard as StdMutexGuard, PoisonError};
use std::time::Duration;

pub use std::sync::Arc;

fn obj_id(slot: &AtomicU64) -> u64 {
    let v = slot.load(AO::Relaxed);
    if v != 0 {
        return v;
    }
    let id = match world::current() {
        Some((w, _)) => w.with(|g| g.new_obj()),
        None => 1 << 60,
    };
    slot.store(id, AO::Relaxed);
    id
}

// ---------------------------------------------------------------------------
// Mutex

pub struct Mutex<T: ?Sized> {
    id: AtomicU64,
    locked: StdAtomicBool,
    data: StdMutex<T>,
}

pub struct MutexGuard<'a, T: ?Sized + 'a> {
    mutex: &'a Mutex<T>,
    inner: Option<StdMutexGuard<'a, T>>,
}

impl<T> Mutex<T> {
    pub fn new(t: T) -> Mutex<T> {
        Mutex {
            id: AtomicU64::new(0),
            locked: StdAtomicBool::new(false),
            data: StdMutex::new(t),
        }
    }

    pub fn into_inner(self) -> LockResult<T> {
        self.data.into_inner()
    }
}

impl<T: Default> Default for Mutex<T> {
    fn default() -> Mutex<T> {
        Mutex::new(T::default())
    }
}

impl<T: ?Sized + std::fmt::Debug> std::fmt::Debug for Mutex<T> {
    fn fmt(&self, f: &mut std::fmt::Formatter<'_>) -> std::fmt::Result {
        f.write_str("simrt::Mutex { .. }")
    }
}

impl<T: ?Sized> Mutex<T> {
    fn acquire(&self, op: &'static str) {
        if let Some((w, me)) = world::current() {
            let id = obj_id(&self.id);
            w.sched_point(me, op);
            loop {
                if !self.locked.swap(true, AO::Relaxed) {
                    return;
                }
                w.block(me, Reason::Mutex(id), None);
            }
        }
    }

    fn release(&self) {
        if let Some((w, _)) = world::current() {
            let id = obj_id(&self.id);
            self.locked.store(false, AO::Relaxed);
            w.with(|g| g.wake_all(Reason::Mutex(id)));
        }
    }

    fn take_data(&self) -> LockResult<StdMutexGuard<'_, T>> {
        match self.data.try_lock() {
            Ok(g) => Ok(g),
            Err(std::sync::TryLockError::Poisoned(p)) => Err(p),
            Err(std::sync::TryLockError::WouldBlock) => {
                if world::in_world() {
                    panic!("simrt: data lock contended although the simulated lock was free");
                }
                self.data.lock()
            }
        }
    }

    /// Non-blocking attempt (a scheduling point like every other operation).
    pub fn try_lock(&self) -> std::sync::TryLockResult<MutexGuard<'_, T>> {
        if let Some((w, me)) = world::current() {
            let _ = obj_id(&self.id);
            w.sched_point(me, "mutex.try_lock");
            if self.locked.swap(true, AO::Relaxed) {
                return Err(std::sync::TryLockError::WouldBlock);
            }
        }
        match self.take_data() {
            Ok(g) => Ok(MutexGuard {
                mutex: self,
                inner: Some(g),
            }),
            Err(p) => Err(std::sync::TryLockError::Poisoned(PoisonError::new(MutexGuard {
                mutex: self,
                inner: Some(p.into_inner()),
            }))),
        }
    }

    pub fn is_poisoned(&self) -> bool {
        self.data.is_poisoned()
    }

    pub fn get_mut(&mut self) -> LockResult<&mut T> {
        self.data.get_mut()
    }

    pub fn lock(&self) -> LockResult<MutexGuard<'_, T>> {
        self.acquire("mutex.lock");
        match self.take_data() {
            Ok(g) => Ok(MutexGuard {
                mutex: self,
                inner: Some(g),
            }),
            Err(p) => Err(PoisonError::new(MutexGuard {
                mutex: self,
                inner: Some(p.into_inner()),
            })),
        }
    }
}

impl<T: ?Sized> std::ops::Deref for MutexGuard<'_, T> {
    type Target = T;
    fn deref(&self) -> &T {
        self.inner.as_ref().unwrap()
    }
}
impl<T: ?Sized> std::ops::DerefMut for MutexGuard<'_, T> {
    fn deref_mut(&mut self) -> &mut T {
        self.inner.as_mut().unwrap()
    }
}
impl<T: ?Sized> Drop for MutexGuard<'_, T> {
    fn drop(&mut self) {
        if self.inner.take().is_some() {
            self.mutex.release();
        }
    }
}

// ---------------------------------------------------------------------------
// Condvar

pub struct Condvar {
    id: AtomicU64,
}

#[derive(Clone, Copy, Debug, PartialEq, Eq)]
pub struct WaitTimeoutResult(bool);
impl WaitTimeoutResult {
    pub fn timed_out(&self) -> bool {
        self.0
    }
}

impl Default for Condvar {
    fn default() -> Self {
        Condvar::new()
    }
}

impl Condvar {
    pub fn new() -> Condvar {
        Condvar {
            id: AtomicU64::new(0),
        }
    }

    fn wait_inner<'a, T>(
        &self,
        mut guard: MutexGuard<'a, T>,
        dur: Option<Duration>,
    ) -> (LockResult<MutexGuard<'a, T>>, bool) {
        let mutex = guard.mutex;
        let (w, me) = match world::current() {
            Some(c) => c,
            None => panic!("simrt::Condvar::wait outside a simulated world"),
        };
        let id = obj_id(&self.id);
        w.sched_point(me, if dur.is_some() { "condvar.wait_timeout" } else { "condvar.wait" });
        // atomically: release the mutex and start waiting
        drop(guard.inner.take());
        mutex.release();
        std::mem::forget(guard);
        let deadline = dur.map(|d| w.with(|g| g.now.saturating_add(d.as_nanos() as u64)));
        let cause = w.block(me, Reason::Condvar(id), deadline);
        // re-acquire
        loop {
            if !mutex.locked.swap(true, AO::Relaxed) {
                break;
            }
            let mid = obj_id(&mutex.id);
            w.block(me, Reason::Mutex(mid), None);
        }
        let timed_out = cause == WakeCause::TimedOut;
        let res = match mutex.take_data() {
            Ok(g) => Ok(MutexGuard {
                mutex,
                inner: Some(g),
            }),
            Err(p) => Err(PoisonError::new(MutexGuard {
                mutex,
                inner: Some(p.into_inner()),
            })),
        };
        (res, timed_out)
    }

    pub fn wait<'a, T>(&self, guard: MutexGuard<'a, T>) -> LockResult<MutexGuard<'a, T>> {
        self.wait_inner(guard, None).0
    }

    pub fn wait_timeout<'a, T>(
        &self,
        guard: MutexGuard<'a, T>,
        dur: Duration,
    ) -> LockResult<(MutexGuard<'a, T>, WaitTimeoutResult)> {
        let (r, to) = self.wait_inner(guard, Some(dur));
        match r {
            Ok(g) => Ok((g, WaitTimeoutResult(to))),
            Err(p) => Err(PoisonError::new((p.into_inner(), WaitTimeoutResult(to)))),
        }
    }

    pub fn wait_while<'a, T, F>(&self, mut guard: MutexGuard<'a, T>, mut condition: F) -> LockResult<MutexGuard<'a, T>>
    where
        F: FnMut(&mut T) -> bool,
    {
        while condition(&mut *guard) {
            guard = self.wait(guard)?;
        }
        Ok(guard)
    }

    pub fn wait_timeout_while<'a, T, F>(
        &self,
        mut guard: MutexGuard<'a, T>,
        dur: Duration,
        mut condition: F,
    ) -> LockResult<(MutexGuard<'a, T>, WaitTimeoutResult)>
    where
        F: FnMut(&mut T) -> bool,
    {
        let start = crate::now_ns();
        loop {
            if !condition(&mut *guard) {
                return Ok((guard, WaitTimeoutResult(false)));
            }
            let spent = Duration::from_nanos(crate::now_ns().saturating_sub(start));
            let left = match dur.checked_sub(spent) {
                Some(l) if !l.is_zero() => l,
                _ => return Ok((guard, WaitTimeoutResult(true))),
            };
            guard = self.wait_timeout(guard, left)?.0;
        }
    }

    pub fn notify_one(&self) {
        if let Some((w, me)) = world::current() {
            let id = obj_id(&self.id);
            w.sched_point(me, "condvar.notify_one");
            w.with(|g| g.wake_one(Reason::Condvar(id)));
        }
    }

    pub fn notify_all(&self) {
        if let Some((w, me)) = world::current() {
            let id = obj_id(&self.id);
            w.sched_point(me, "condvar.notify_all");
            w.with(|g| g.wake_all(Reason::Condvar(id)));
        }
    }
}

// ---------------------------------------------------------------------------
// atomics (sequentially consistent, one scheduling point per access)

pub mod atomic {
    pub use std::sync::atomic::Ordering;

    macro_rules! atomic_int {
        ($name:ident, $std:ty, $t:ty) => {
            #[derive(Debug, Default)]
            pub struct $name($std);
            impl $name {
                pub const fn new(v: $t) -> Self {
                    Self(<$std>::new(v))
                }
                pub fn load(&self, _o: Ordering) -> $t {
                    crate::world::sched("atomic.load");
                    self.0.load(Ordering::SeqCst)
                }
                pub fn store(&self, v: $t, _o: Ordering) {
                    crate::world::sched("atomic.store");
                    self.0.store(v, Ordering::SeqCst)
                }
                pub fn swap(&self, v: $t, _o: Ordering) -> $t {
                    crate::world::sched("atomic.swap");
                    self.0.swap(v, Ordering::SeqCst)
                }
                pub fn fetch_add(&self, v: $t, _o: Ordering) -> $t {
                    crate::world::sched("atomic.fetch_add");
                    self.0.fetch_add(v, Ordering::SeqCst)
                }
                pub fn fetch_sub(&self, v: $t, _o: Ordering) -> $t {
                    crate::world::sched("atomic.fetch_sub");
                    self.0.fetch_sub(v, Ordering::SeqCst)
                }
                pub fn compare_exchange(
                    &self,
                    c: $t,
                    n: $t,
                    _s: Ordering,
                    _f: Ordering,
                ) -> Result<$t, $t> {
                    crate::world::sched("atomic.cas");
                    self.0
                        .compare_exchange(c, n, Ordering::SeqCst, Ordering::SeqCst)
                }
                pub fn compare_exchange_weak(
                    &self,
                    c: $t,
                    n: $t,
                    s: Ordering,
                    f: Ordering,
                ) -> Result<$t, $t> {
                    self.compare_exchange(c, n, s, f)
                }
                pub fn fetch_max(&self, v: $t, _o: Ordering) -> $t {
                    crate::world::sched("atomic.fetch_max");
                    self.0.fetch_max(v, Ordering::SeqCst)
                }
                pub fn fetch_min(&self, v: $t, _o: Ordering) -> $t {
                    crate::world::sched("atomic.fetch_min");
                    self.0.fetch_min(v, Ordering::SeqCst)
                }
                pub fn fetch_or(&self, v: $t, _o: Ordering) -> $t {
                    crate::world::sched("atomic.fetch_or");
                    self.0.fetch_or(v, Ordering::SeqCst)
                }
                pub fn fetch_and(&self, v: $t, _o: Ordering) -> $t {
                    crate::world::sched("atomic.fetch_and");
                    self.0.fetch_and(v, Ordering::SeqCst)
                }
                pub fn fetch_update<F: FnMut($t) -> Option<$t>>(
                    &self,
                    _s: Ordering,
                    _f: Ordering,
                    mut f: F,
                ) -> Result<$t, $t> {
                    crate::world::sched("atomic.fetch_update");
                    let cur = self.0.load(Ordering::SeqCst);
                    match f(cur) {
                        Some(n) => {
                            self.0.store(n, Ordering::SeqCst);
                            Ok(cur)
                        }
                        None => Err(cur),
                    }
                }
                pub fn into_inner(self) -> $t {
                    self.0.into_inner()
                }
                pub fn get_mut(&mut self) -> &mut $t {
                    self.0.get_mut()
                }
            }
        };
    }
    atomic_int!(AtomicUsize, std::sync::atomic::AtomicUsize, usize);
    atomic_int!(AtomicU64, std::sync::atomic::AtomicU64, u64);
    atomic_int!(AtomicIsize, std::sync::atomic::AtomicIsize, isize);
    atomic_int!(AtomicU32, std::sync::atomic::AtomicU32, u32);
    atomic_int!(AtomicI32, std::sync::atomic::AtomicI32, i32);
    atomic_int!(AtomicI64, std::sync::atomic::AtomicI64, i64);
    atomic_int!(AtomicU8, std::sync::atomic::AtomicU8, u8);

    #[derive(Debug, Default)]
    pub struct AtomicBool(std::sync::atomic::AtomicBool);
    impl AtomicBool {
        pub const fn new(v: bool) -> Self {
            Self(std::sync::atomic::AtomicBool::new(v))
        }
        pub fn load(&self, _o: Ordering) -> bool {
            crate::world::sched("atomic.load");
            self.0.load(Ordering::SeqCst)
        }
        pub fn store(&self, v: bool, _o: Ordering) {
            crate::world::sched("atomic.store");
            self.0.store(v, Ordering::SeqCst)
        }
        pub fn swap(&self, v: bool, _o: Ordering) -> bool {
            crate::world::sched("atomic.swap");
            self.0.swap(v, Ordering::SeqCst)
        }
        pub fn fetch_or(&self, v: bool, _o: Ordering) -> bool {
            crate::world::sched("atomic.fetch_or");
            self.0.fetch_or(v, Ordering::SeqCst)
        }
        pub fn fetch_and(&self, v: bool, _o: Ordering) -> bool {
            crate::world::sched("atomic.fetch_and");
            self.0.fetch_and(v, Ordering::SeqCst)
        }
        pub fn compare_exchange(&self, c: bool, n: bool, _s: Ordering, _f: Ordering) -> Result<bool, bool> {
            crate::world::sched("atomic.cas");
            self.0.compare_exchange(c, n, Ordering::SeqCst, Ordering::SeqCst)
        }
        pub fn compare_exchange_weak(&self, c: bool, n: bool, s: Ordering, f: Ordering) -> Result<bool, bool> {
            self.compare_exchange(c, n, s, f)
        }
    }
}

// ---------------------------------------------------------------------------
// mpsc (unbounded)

pub mod mpsc {
    use crate::world::{self, Reason};
    use std::collections::VecDeque;
    use std::sync::atomic::{AtomicBool, AtomicU64, AtomicUsize, Ordering as AO};
    use std::sync::{Arc, Mutex as StdMutex};

    pub use std::sync::mpsc::{RecvError, RecvTimeoutError, SendError, TryRecvError};

    struct Chan<T> {
        id: AtomicU64,
        q: StdMutex<VecDeque<T>>,
        senders: AtomicUsize,
        rx_alive: AtomicBool,
    }

    pub struct Sender<T> {
        ch: Arc<Chan<T>>,
    }
    pub struct Receiver<T> {
        ch: Arc<Chan<T>>,
    }

    pub fn channel<T>() -> (Sender<T>, Receiver<T>) {
        let ch = Arc::new(Chan {
            id: AtomicU64::new(0),
            q: StdMutex::new(VecDeque::new()),
            senders: AtomicUsize::new(1),
            rx_alive: AtomicBool::new(true),
        });
        (Sender { ch: ch.clone() }, Receiver { ch })
    }

    impl<T> Sender<T> {
        pub fn send(&self, t: T) -> Result<(), SendError<T>> {
            let cur = world::sched("mpsc.send");
            if !self.ch.rx_alive.load(AO::Relaxed) {
                return Err(SendError(t));
            }
            self.ch.q.lock().unwrap().push_back(t);
            if let Some((w, _)) = cur {
                let id = super::obj_id(&self.ch.id);
                w.with(|g| g.wake_all(Reason::Recv(id)));
            }
            Ok(())
        }
    }

    impl<T> Clone for Sender<T> {
        fn clone(&self) -> Sender<T> {
            self.ch.senders.fetch_add(1, AO::Relaxed);
            Sender {
                ch: self.ch.clone(),
            }
        }
    }

    impl<T> Drop for Sender<T> {
        fn drop(&mut self) {
            if self.ch.senders.fetch_sub(1, AO::Relaxed) == 1 {
                if let Some((w, _)) = world::current() {
                    let id = super::obj_id(&self.ch.id);
                    w.with(|g| g.wake_all(Reason::Recv(id)));
                }
            }
        }
    }

    impl<T> std::fmt::Debug for Sender<T> {
        fn fmt(&self, f: &mut std::fmt::Formatter<'_>) -> std::fmt::Result {
            f.write_str("Sender { .. }")
        }
    }
    impl<T> std::fmt::Debug for Receiver<T> {
        fn fmt(&self, f: &mut std::fmt::Formatter<'_>) -> std::fmt::Result {
            f.write_str("Receiver { .. }")
        }
    }

    impl<T> Receiver<T> {
        pub fn recv(&self) -> Result<T, RecvError> {
            let (w, me) = match world::current() {
                Some(c) => c,
                None => {
                    return self.ch.q.lock().unwrap().pop_front().ok_or(RecvError);
                }
            };
            let id = super::obj_id(&self.ch.id);
            w.sched_point(me, "mpsc.recv");
            loop {
                if let Some(v) = self.ch.q.lock().unwrap().pop_front() {
                    return Ok(v);
                }
                if self.ch.senders.load(AO::Relaxed) == 0 {
                    return Err(RecvError);
                }
                w.block(me, Reason::Recv(id), None);
            }
        }

        pub fn try_recv(&self) -> Result<T, TryRecvError> {
            world::sched("mpsc.try_recv");
            if let Some(v) = self.ch.q.lock().unwrap().pop_front() {
                return Ok(v);
            }
            if self.ch.senders.load(AO::Relaxed) == 0 {
                Err(TryRecvError::Disconnected)
            } else {
                Err(TryRecvError::Empty)
            }
        }

        pub fn recv_timeout(&self, dur: std::time::Duration) -> Result<T, RecvTimeoutError> {
            let (w, me) = match world::current() {
                Some(c) => c,
                None => {
                    return self.ch.q.lock().unwrap().pop_front().ok_or(RecvTimeoutError::Timeout);
                }
            };
            let id = super::obj_id(&self.ch.id);
            w.sched_point(me, "mpsc.recv_timeout");
            let deadline = w.with(|g| g.now.saturating_add(dur.as_nanos() as u64));
            loop {
                if let Some(v) = self.ch.q.lock().unwrap().pop_front() {
                    return Ok(v);
                }
                if self.ch.senders.load(AO::Relaxed) == 0 {
                    return Err(RecvTimeoutError::Disconnected);
                }
                if w.with(|g| g.now) >= deadline {
                    return Err(RecvTimeoutError::Timeout);
                }
                w.block(me, Reason::Recv(id), Some(deadline));
            }
        }

        pub fn try_iter(&self) -> TryIter<'_, T> {
            TryIter { rx: self }
        }

        pub fn iter(&self) -> Iter<'_, T> {
            Iter { rx: self }
        }
    }

    pub struct TryIter<'a, T> {
        rx: &'a Receiver<T>,
    }
    impl<T> Iterator for TryIter<'_, T> {
        type Item = T;
        fn next(&mut self) -> Option<T> {
            self.rx.try_recv().ok()
        }
    }

    pub struct Iter<'a, T> {
        rx: &'a Receiver<T>,
    }
    impl<T> Iterator for Iter<'_, T> {
        type Item = T;
        fn next(&mut self) -> Option<T> {
            self.rx.recv().ok()
        }
    }

    impl<T> Drop for Receiver<T> {
        fn drop(&mut self) {
            self.ch.rx_alive.store(false, AO::Relaxed);
            // queued values are dropped here, outside the queue lock (their own
            // destructors may use simulated primitives)
            loop {
                let v = self.ch.q.lock().unwrap().pop_front();
                match v {
                    Some(v) => drop(v),
                    None => break,
                }
            }
        }
    }
}
