//! The core of the deterministic runtime: simulated threads are real OS threads,
//! but exactly one of them (the holder of the *baton*) runs at any time.  Every
//! primitive of `simrt` starts with a scheduling point at which the seeded
//! scheduler decides who runs next.  Time is virtual.

use std::cell::RefCell;
use std::collections::BTreeMap;
use std::sync::atomic::{AtomicBool, Ordering as AO};
use std::sync::{Arc, Condvar as StdCondvar, Mutex as StdMutex, OnceLock};

pub type Tid = usize;
pub(crate) const NONE: usize = usize::MAX;

/// Why a simulated thread cannot run.
#[derive(Clone, Copy, Debug, PartialEq, Eq)]
pub enum Reason {
    Mutex(u64),
    Condvar(u64),
    Recv(u64),
    NetRead(u64),
    NetWrite(u64),
    Accept(u64),
    ClientWait(u64),
    Join(Tid),
    Sleep,
    Quiesce,
    Settle,
}

#[derive(Clone, Copy, Debug, PartialEq, Eq)]
pub enum WakeCause {
    Notified,
    TimedOut,
    Spurious,
}

#[derive(Clone, Copy, Debug, PartialEq, Eq)]
pub(crate) enum Status {
    Runnable,
    Blocked(Reason),
    Finished,
}

pub(crate) struct Parker {
    flag: AtomicBool,
    thread: OnceLock<std::thread::Thread>,
}

impl Parker {
    pub(crate) fn new() -> Parker {
        Parker {
            flag: AtomicBool::new(false),
            thread: OnceLock::new(),
        }
    }
    pub(crate) fn set_thread(&self, t: std::thread::Thread) {
        let _ = self.thread.set(t);
    }
    pub(crate) fn park(&self) {
        while !self.flag.swap(false, AO::Acquire) {
            std::thread::park();
        }
    }
    pub(crate) fn unpark(&self) {
        self.flag.store(true, AO::Release);
        if let Some(t) = self.thread.get() {
            t.unpark();
        }
    }
}

pub(crate) struct Th {
    pub name: Option<String>,
    pub status: Status,
    pub deadline: Option<u64>,
    pub cause: WakeCause,
    pub parker: Arc<Parker>,
    pub prio: u64,
    pub last_op: &'static str,
}

/// Scheduling strategy of one run.
#[derive(Clone, Debug, PartialEq)]
pub enum Strategy {
    /// uniform over runnable threads at every scheduling point
    Random,
    /// PCT: random priorities, `depth-1` priority change points within `est_len` steps
    Pct { depth: u32, est_len: u64 },
    /// keep running the current thread with probability stay/1000, else uniform
    Burst { stay_permille: u32 },
}

#[derive(Clone, Debug)]
pub struct Config {
    pub seed: u64,
    pub strategy: Strategy,
    /// timers may fire while threads are still runnable
    pub racy_time: bool,
    /// spurious condvar wake-ups (rate 1/64 per scheduling point)
    pub spurious: bool,
    pub step_cap: u64,
    /// replay this list of choices instead of drawing them
    pub replay: Option<Vec<u32>>,
    /// tolerant replay: when the recorded choice is unavailable or the list is
    /// exhausted fall back to "keep the current thread, else lowest id"
    pub tolerant: bool,
    pub stack_size: usize,
    /// start value of the virtual wall clock (seconds since the UNIX epoch)
    pub wall_base_secs: u64,
    /// keep the full event log (for replay files / samples)
    pub record_log: bool,
}

impl Default for Config {
    fn default() -> Config {
        Config {
            seed: 1,
            strategy: Strategy::Random,
            racy_time: false,
            spurious: false,
            step_cap: 400_000,
            replay: None,
            tolerant: false,
            stack_size: 256 * 1024,
            wall_base_secs: 1_000_000_000,
            record_log: false,
        }
    }
}

#[derive(Clone, Debug, PartialEq, Eq)]
pub enum Outcome {
    /// every thread finished
    Done,
    /// no thread runnable, no timer pending, but some threads are blocked for ever
    Stuck,
    /// the step cap was reached
    StepCap,
    /// a strict replay asked for a choice that does not exist
    ReplayDiverged,
}

#[derive(Clone, Debug)]
pub struct ThreadInfo {
    pub tid: Tid,
    pub name: Option<String>,
    pub state: String,
    pub last_op: &'static str,
    pub finished: bool,
}

#[derive(Clone, Debug)]
pub struct PanicInfo {
    pub tid: Tid,
    pub thread_name: Option<String>,
    pub message: String,
    pub location: String,
    pub now: u64,
    pub seq: u64,
}

#[derive(Clone, Debug)]
pub struct Report {
    pub outcome: Outcome,
    pub steps: u64,
    pub now: u64,
    pub hash: u64,
    pub trace: Vec<u32>,
    pub threads: Vec<ThreadInfo>,
    pub panics: Vec<PanicInfo>,
    pub probes: BTreeMap<String, u64>,
    pub faults: BTreeMap<String, u64>,
    pub context_switches: u64,
    pub choice_points: u64,
    pub timer_jumps: u64,
    pub log: Vec<String>,
    pub max_threads: usize,
}

pub(crate) struct Rng(u64);
impl Rng {
    pub(crate) fn new(seed: u64) -> Rng {
        let mut r = Rng(seed ^ 0x9E37_79B9_7F4A_7C15);
        r.next();
        r
    }
    pub(crate) fn next(&mut self) -> u64 {
        // splitmix64
        self.0 = self.0.wrapping_add(0x9E37_79B9_7F4A_7C15);
        let mut z = self.0;
        z = (z ^ (z >> 30)).wrapping_mul(0xBF58_476D_1CE4_E5B9);
        z = (z ^ (z >> 27)).wrapping_mul(0x94D0_49BB_1331_11EB);
        z ^ (z >> 31)
    }
    pub(crate) fn below(&mut self, n: u64) -> u64 {
        if n <= 1 {
            0
        } else {
            self.next() % n
        }
    }
}

pub(crate) struct Inner {
    pub threads: Vec<Th>,
    pub current: usize,
    pub now: u64,
    pub steps: u64,
    pub hash: u64,
    pub rng: Rng,
    pub cfg: Config,
    pub trace: Vec<u32>,
    pub replay_pos: usize,
    pub outcome: Option<Outcome>,
    pub next_obj: u64,
    pub probes: BTreeMap<String, u64>,
    pub faults: BTreeMap<String, u64>,
    pub panics: Vec<PanicInfo>,
    pub pct_points: Vec<u64>,
    pub pct_low: u64,
    pub context_switches: u64,
    pub choice_points: u64,
    pub timer_jumps: u64,
    pub log: Vec<String>,
    pub max_threads: usize,
    pub net: crate::net::NetWorld,
}

pub(crate) struct World {
    pub st: StdMutex<Inner>,
    pub done: StdCondvar,
}

thread_local! {
    static CURRENT: RefCell<Option<(Arc<World>, Tid)>> = const { RefCell::new(None) };
    pub(crate) static LAST_PANIC: RefCell<Option<(String, String)>> = const { RefCell::new(None) };
}

pub(crate) fn current() -> Option<(Arc<World>, Tid)> {
    CURRENT.with(|c| c.borrow().clone())
}

pub(crate) fn set_current(w: Arc<World>, tid: Tid) {
    CURRENT.with(|c| *c.borrow_mut() = Some((w, tid)));
}

fn mix(h: u64, v: u64) -> u64 {
    let mut x = h ^ v.wrapping_mul(0x9E37_79B9_7F4A_7C15);
    x = (x ^ (x >> 32)).wrapping_mul(0xD6E8_FEB8_6659_FD93);
    x ^ (x >> 29)
}

fn op_code(s: &str) -> u64 {
    let mut h = 0xcbf2_9ce4_8422_2325u64;
    for b in s.bytes() {
        h = (h ^ b as u64).wrapping_mul(0x1000_0000_01b3);
    }
    h
}

impl Inner {
    fn runnable(&self) -> Vec<Tid> {
        self.threads
            .iter()
            .enumerate()
            .filter(|(_, t)| t.status == Status::Runnable)
            .map(|(i, _)| i)
            .collect()
    }

    /// A scheduler-owned choice among `n` options (recorded when n > 1).
    pub(crate) fn choose(&mut self, n: usize, default: usize) -> usize {
        if n <= 1 {
            return 0;
        }
        self.choice_points += 1;
        let c = if let Some(rp) = self.cfg.replay.as_ref() {
            let v = rp.get(self.replay_pos).copied();
            self.replay_pos += 1;
            match v {
                Some(v) if (v as usize) < n => v as usize,
                _ => {
                    if self.cfg.tolerant {
                        default.min(n - 1)
                    } else {
                        if self.outcome.is_none() {
                            self.outcome = Some(Outcome::ReplayDiverged);
                        }
                        default.min(n - 1)
                    }
                }
            }
        } else {
            self.rng.below(n as u64) as usize
        };
        self.trace.push(c as u32);
        c
    }

    /// Bernoulli choice with probability num/den, recorded as a choice.
    pub(crate) fn coin(&mut self, num: u64, den: u64) -> bool {
        if self.cfg.replay.is_some() {
            return self.choose(2, 0) == 1;
        }
        self.choice_points += 1;
        let c = self.rng.below(den) < num;
        self.trace.push(c as u32);
        c
    }

    fn pick_next(&mut self, cur: Option<Tid>) -> Option<Tid> {
        let run = self.runnable();
        if run.is_empty() {
            return None;
        }
        if run.len() == 1 {
            return Some(run[0]);
        }
        let default_idx = cur
            .and_then(|c| run.iter().position(|&t| t == c))
            .unwrap_or(0);
        if self.cfg.replay.is_some() {
            let i = self.choose(run.len(), default_idx);
            return Some(run[i]);
        }
        let idx = match self.cfg.strategy.clone() {
            Strategy::Random => self.rng.below(run.len() as u64) as usize,
            Strategy::Burst { stay_permille } => {
                let stay = self.rng.below(1000) < stay_permille as u64;
                match (stay, cur.and_then(|c| run.iter().position(|&t| t == c))) {
                    (true, Some(i)) => i,
                    _ => self.rng.below(run.len() as u64) as usize,
                }
            }
            Strategy::Pct { .. } => {
                let mut best = 0;
                for (i, &t) in run.iter().enumerate() {
                    if self.threads[t].prio > self.threads[run[best]].prio {
                        best = i;
                    }
                }
                best
            }
        };
        self.choice_points += 1;
        self.trace.push(idx as u32);
        Some(run[idx])
    }

    fn earliest_deadline(&self) -> Option<u64> {
        self.threads
            .iter()
            .filter(|t| matches!(t.status, Status::Blocked(_)))
            .filter_map(|t| t.deadline)
            .min()
    }

    fn fire_timers(&mut self, at: u64) {
        if at > self.now {
            self.now = at;
        }
        self.timer_jumps += 1;
        for t in self.threads.iter_mut() {
            if matches!(t.status, Status::Blocked(_)) {
                if let Some(d) = t.deadline {
                    if d <= at {
                        t.status = Status::Runnable;
                        t.deadline = None;
                        t.cause = WakeCause::TimedOut;
                    }
                }
            }
        }
    }

    fn find_blocked(&self, r: Reason) -> Option<Tid> {
        self.threads
            .iter()
            .position(|t| t.status == Status::Blocked(r))
    }

    pub(crate) fn wake_all(&mut self, r: Reason) -> usize {
        let mut n = 0;
        for t in self.threads.iter_mut() {
            if t.status == Status::Blocked(r) {
                t.status = Status::Runnable;
                t.deadline = None;
                t.cause = WakeCause::Notified;
                n += 1;
            }
        }
        n
    }

    pub(crate) fn wake_one(&mut self, r: Reason) -> bool {
        let c: Vec<Tid> = self
            .threads
            .iter()
            .enumerate()
            .filter(|(_, t)| t.status == Status::Blocked(r))
            .map(|(i, _)| i)
            .collect();
        if c.is_empty() {
            return false;
        }
        let i = self.choose(c.len(), 0);
        let t = &mut self.threads[c[i]];
        t.status = Status::Runnable;
        t.deadline = None;
        t.cause = WakeCause::Notified;
        true
    }

    pub(crate) fn new_obj(&mut self) -> u64 {
        self.next_obj += 1;
        self.next_obj
    }

    pub(crate) fn fault(&mut self, name: &str) {
        *self.faults.entry(name.to_string()).or_insert(0) += 1;
    }

    fn note(&mut self, me: Tid, op: &'static str) {
        self.steps += 1;
        self.hash = mix(self.hash, (me as u64) << 48 ^ op_code(op) ^ self.now.rotate_left(17));
        self.threads[me].last_op = op;
        if self.cfg.record_log && self.log.len() < 20_000 {
            let nm = self.threads[me]
                .name
                .clone()
                .unwrap_or_else(|| format!("lib#{}", me));
            self.log
                .push(format!("{} t={}ns {} {}", self.steps, self.now, nm, op));
        }
        if let Strategy::Pct { .. } = self.cfg.strategy {
            if self.cfg.replay.is_none() && self.pct_points.contains(&self.steps) {
                self.pct_low = self.pct_low.saturating_sub(1);
                self.threads[me].prio = self.pct_low;
            }
        }
    }
}

impl World {
    fn finish_world(&self, g: &mut Inner, o: Outcome) {
        if g.outcome.is_none() {
            g.outcome = Some(o);
        }
        g.current = NONE;
        self.done.notify_all();
    }

    /// Pick who runs next when `me` gives up the baton (blocked or finished).
    /// Returns true when `me` got the baton back immediately.
    fn dispatch(&self, g: &mut Inner, me: Tid) -> bool {
        loop {
            if g.outcome.is_some() {
                // replay divergence or cap: stop the world
                self.finish_world(g, Outcome::ReplayDiverged);
                return false;
            }
            if let Some(next) = g.pick_next(None) {
                g.current = next;
                if next == me {
                    return true;
                }
                g.context_switches += 1;
                g.threads[next].parker.unpark();
                return false;
            }
            // nobody runnable
            if let Some(t) = g.find_blocked(Reason::Settle) {
                g.threads[t].status = Status::Runnable;
                g.threads[t].cause = WakeCause::Notified;
                continue;
            }
            if let Some(d) = g.earliest_deadline() {
                g.fire_timers(d);
                continue;
            }
            if let Some(t) = g.find_blocked(Reason::Quiesce) {
                g.threads[t].status = Status::Runnable;
                g.threads[t].cause = WakeCause::Notified;
                continue;
            }
            let all_done = g.threads.iter().all(|t| t.status == Status::Finished);
            self.finish_world(g, if all_done { Outcome::Done } else { Outcome::Stuck });
            return false;
        }
    }

    /// A scheduling point: the calling thread stays runnable.
    pub(crate) fn sched_point(self: &Arc<Self>, me: Tid, op: &'static str) {
        let mut g = self.st.lock().unwrap();
        debug_assert_eq!(g.current, me, "sched_point by a thread that does not hold the baton");
        g.note(me, op);
        if g.steps >= g.cfg.step_cap {
            self.finish_world(&mut g, Outcome::StepCap);
            let p = g.threads[me].parker.clone();
            drop(g);
            loop {
                p.park();
            }
        }
        if g.cfg.spurious {
            let cv: Vec<Tid> = g
                .threads
                .iter()
                .enumerate()
                .filter(|(_, t)| matches!(t.status, Status::Blocked(Reason::Condvar(_))))
                .map(|(i, _)| i)
                .collect();
            if !cv.is_empty() && g.coin(1, 64) {
                let i = g.choose(cv.len(), 0);
                let t = &mut g.threads[cv[i]];
                t.status = Status::Runnable;
                t.deadline = None;
                t.cause = WakeCause::Spurious;
                g.fault("spurious_wakeup");
            }
        }
        if g.cfg.racy_time {
            if let Some(d) = g.earliest_deadline() {
                if g.coin(1, 24) {
                    g.fire_timers(d);
                    g.fault("racy_timer_fire");
                }
            }
        }
        if g.outcome.is_some() {
            self.finish_world(&mut g, Outcome::ReplayDiverged);
            let p = g.threads[me].parker.clone();
            drop(g);
            loop {
                p.park();
            }
        }
        let next = g.pick_next(Some(me)).unwrap();
        if next != me {
            g.current = next;
            g.context_switches += 1;
            g.threads[next].parker.unpark();
            let p = g.threads[me].parker.clone();
            drop(g);
            p.park();
        }
    }

    /// Block the calling thread until woken (or until `deadline`).
    pub(crate) fn block(self: &Arc<Self>, me: Tid, r: Reason, deadline: Option<u64>) -> WakeCause {
        let mut g = self.st.lock().unwrap();
        debug_assert_eq!(g.current, me);
        g.threads[me].status = Status::Blocked(r);
        g.threads[me].deadline = deadline;
        g.threads[me].cause = WakeCause::Notified;
        let back = self.dispatch(&mut g, me);
        let p = g.threads[me].parker.clone();
        drop(g);
        if !back {
            p.park();
        }
        let g = self.st.lock().unwrap();
        g.threads[me].cause
    }

    /// Called when a simulated thread's closure has returned (or panicked).
    pub(crate) fn thread_finished(self: &Arc<Self>, me: Tid) {
        let mut g = self.st.lock().unwrap();
        g.note(me, "thread.exit");
        g.threads[me].status = Status::Finished;
        g.wake_all(Reason::Join(me));
        self.dispatch(&mut g, me);
    }

    pub(crate) fn with<R>(self: &Arc<Self>, f: impl FnOnce(&mut Inner) -> R) -> R {
        let mut g = self.st.lock().unwrap();
        f(&mut g)
    }
}

fn install_panic_hook() {
    static ONCE: std::sync::Once = std::sync::Once::new();
    ONCE.call_once(|| {
        let prev = std::panic::take_hook();
        std::panic::set_hook(Box::new(move |info| {
            let loc = info
                .location()
                .map(|l| format!("{}:{}:{}", l.file(), l.line(), l.column()))
                .unwrap_or_else(|| "<unknown>".into());
            let msg = if let Some(s) = info.payload().downcast_ref::<&str>() {
                s.to_string()
            } else if let Some(s) = info.payload().downcast_ref::<String>() {
                s.clone()
            } else {
                "<non-string panic payload>".to_string()
            };
            if current().is_some() {
                LAST_PANIC.with(|p| *p.borrow_mut() = Some((msg, loc)));
            } else {
                prev(info);
            }
        }));
    });
}

pub(crate) fn register_thread(
    w: &Arc<World>,
    g: &mut Inner,
    name: Option<String>,
    parker: Arc<Parker>,
) -> Tid {
    let tid = g.threads.len();
    let prio = match g.cfg.strategy {
        Strategy::Pct { .. } if g.cfg.replay.is_none() => (1u64 << 32) + g.rng.below(1u64 << 31),
        _ => 0,
    };
    g.threads.push(Th {
        name,
        status: Status::Runnable,
        deadline: None,
        cause: WakeCause::Notified,
        parker,
        prio,
        last_op: "spawned",
    });
    let live = g
        .threads
        .iter()
        .filter(|t| t.status != Status::Finished)
        .count();
    if live > g.max_threads {
        g.max_threads = live;
    }
    let _ = w;
    tid
}

/// Body run by every simulated OS thread.
pub(crate) fn thread_main<T: Send + 'static>(
    w: Arc<World>,
    tid: Tid,
    parker: Arc<Parker>,
    f: Box<dyn FnOnce() -> T + Send + 'static>,
    out: Arc<StdMutex<Option<std::thread::Result<T>>>>,
) {
    set_current(w.clone(), tid);
    parker.park(); // wait for the baton
    let r = std::panic::catch_unwind(std::panic::AssertUnwindSafe(f));
    if r.is_err() {
        let (msg, loc) = LAST_PANIC
            .with(|p| p.borrow_mut().take())
            .unwrap_or_else(|| ("<unknown>".into(), "<unknown>".into()));
        w.with(|g| {
            let name = g.threads[tid].name.clone();
            let (now, seq) = (g.now, g.steps);
            g.panics.push(PanicInfo {
                tid,
                thread_name: name,
                message: msg,
                location: loc,
                now,
                seq,
            });
        });
    }
    *out.lock().unwrap() = Some(r);
    w.thread_finished(tid);
}

/// Run `root` as the first simulated thread of a fresh world and return when the
/// world has ended: every thread finished, or nothing can ever run again, or the
/// step cap was hit.
pub fn run<F: FnOnce() + Send + 'static>(cfg: Config, root: F) -> Report {
    install_panic_hook();
    let mut rng = Rng::new(cfg.seed);
    let mut pct_points = Vec::new();
    if let Strategy::Pct { depth, est_len } = cfg.strategy {
        for _ in 1..depth {
            pct_points.push(1 + rng.below(est_len.max(1)));
        }
    }
    let stack = cfg.stack_size;
    let world = Arc::new(World {
        st: StdMutex::new(Inner {
            threads: Vec::new(),
            current: NONE,
            now: 0,
            steps: 0,
            hash: 0x1234_5678_9abc_def0,
            rng,
            cfg,
            trace: Vec::new(),
            replay_pos: 0,
            outcome: None,
            next_obj: 0,
            probes: BTreeMap::new(),
            faults: BTreeMap::new(),
            panics: Vec::new(),
            pct_points,
            pct_low: 1 << 20,
            context_switches: 0,
            choice_points: 0,
            timer_jumps: 0,
            log: Vec::new(),
            max_threads: 0,
            net: crate::net::NetWorld::default(),
        }),
        done: StdCondvar::new(),
    });
    let parker = Arc::new(Parker::new());
    let out = Arc::new(StdMutex::new(None));
    let tid = {
        let mut g = world.st.lock().unwrap();
        register_thread(&world, &mut g, Some("driver".into()), parker.clone())
    };
    let (w2, p2, o2) = (world.clone(), parker.clone(), out.clone());
    let h = std::thread::Builder::new()
        .stack_size(stack.max(512 * 1024))
        .spawn(move || thread_main(w2, tid, p2, Box::new(root), o2))
        .expect("spawn root");
    parker.set_thread(h.thread().clone());
    {
        let mut g = world.st.lock().unwrap();
        g.current = tid;
        parker.unpark();
        while g.outcome.is_none() || g.current != NONE {
            g = world.done.wait(g).unwrap();
        }
    }
    let g = world.st.lock().unwrap();
    let threads = g
        .threads
        .iter()
        .enumerate()
        .map(|(i, t)| ThreadInfo {
            tid: i,
            name: t.name.clone(),
            state: format!("{:?}", t.status),
            last_op: t.last_op,
            finished: t.status == Status::Finished,
        })
        .collect();
    Report {
        outcome: g.outcome.clone().unwrap(),
        steps: g.steps,
        now: g.now,
        hash: g.hash,
        trace: g.trace.clone(),
        threads,
        panics: g.panics.clone(),
        probes: g.probes.clone(),
        faults: g.faults.clone(),
        context_switches: g.context_switches,
        choice_points: g.choice_points,
        timer_jumps: g.timer_jumps,
        log: g.log.clone(),
        max_threads: g.max_threads,
    }
}

// ---------------------------------------------------------------------------
// helpers for the other modules and for the harness

pub(crate) fn sched(op: &'static str) -> Option<(Arc<World>, Tid)> {
    let c = current();
    if let Some((w, t)) = c.as_ref() {
        w.sched_point(*t, op);
    }
    c
}

/// Virtual time in nanoseconds.
pub fn now_ns() -> u64 {
    match current() {
        Some((w, _)) => w.with(|g| g.now),
        None => 0,
    }
}

/// Global event sequence number (number of scheduling points so far).
pub fn seq() -> u64 {
    match current() {
        Some((w, _)) => w.with(|g| g.steps),
        None => 0,
    }
}

/// Count an occurrence of a named condition (never alters control flow).
pub fn probe(name: &str) {
    if let Some((w, _)) = current() {
        w.with(|g| *g.probes.entry(name.to_string()).or_insert(0) += 1);
    }
}

/// Block until no thread is runnable and no timer is pending.
pub fn quiesce() {
    if let Some((w, me)) = current() {
        w.sched_point(me, "quiesce");
        w.block(me, Reason::Quiesce, None);
    }
}

/// Block until no other thread is runnable (timers may be pending; time does not move).
pub fn settle() {
    if let Some((w, me)) = current() {
        w.sched_point(me, "settle");
        w.block(me, Reason::Settle, None);
    }
}

/// Snapshot of all threads (name, state, finished).
pub fn threads() -> Vec<ThreadInfo> {
    match current() {
        Some((w, _)) => w.with(|g| {
            g.threads
                .iter()
                .enumerate()
                .map(|(i, t)| ThreadInfo {
                    tid: i,
                    name: t.name.clone(),
                    state: format!("{:?}", t.status),
                    last_op: t.last_op,
                    finished: t.status == Status::Finished,
                })
                .collect()
        }),
        None => Vec::new(),
    }
}

/// Move the virtual wall clock (not the monotonic one) by `delta_secs`.
pub fn jump_wall_clock(delta_secs: i64) {
    if let Some((w, _)) = current() {
        w.with(|g| {
            g.cfg.wall_base_secs = (g.cfg.wall_base_secs as i64 + delta_secs).max(0) as u64;
        });
    }
}

pub fn in_world() -> bool {
    current().is_some()
}
