//! simrt — a small deterministic runtime for simulating threaded, blocking code.
//!
//! Real OS threads, exactly one of which runs at any time; a seeded scheduler
//! decides every interleaving, wake-up target and timer race; time is virtual
//! (discrete-event); the transport is in memory with injectable faults.
//! One `Config.seed` (or one recorded choice list) is one exactly repeatable run.

pub mod net;
pub mod sync;
pub mod thread;
pub mod time;
mod world;

pub use world::{
    in_world, jump_wall_clock, now_ns, probe, quiesce, run, seq, settle, threads, Config, Outcome,
    PanicInfo, Reason, Report, Strategy, ThreadInfo,
};
