#[path = "../../harness/src/scenario.rs"]
#[allow(dead_code)]
mod scenario;

use scenario::*;
use std::collections::BTreeMap;
use std::io::{Read, Write};
use std::net::{Shutdown, TcpStream};
use std::sync::{Arc, Mutex};
use std::time::Duration;
use tiny_http::{Header, Request, Response, Server, StatusCode};

#[derive(serde::Deserialize)]
struct Sim {
    delivered: Vec<serde_json::Value>,
    wire: B,
    fin: bool,
}
#[derive(serde::Deserialize)]
struct Conv {
    index: usize,
    name: String,
    bytes: B,
    half_close: bool,
    programs: BTreeMap<String, Program>,
    sim: Sim,
}

struct Piece {
    data: Vec<u8>,
    pos: usize,
    pieces: Vec<usize>,
    k: usize,
}
impl Read for Piece {
    fn read(&mut self, buf: &mut [u8]) -> std::io::Result<usize> {
        let rest = self.data.len() - self.pos;
        if rest == 0 || buf.is_empty() {
            return Ok(0);
        }
        let mut n = rest.min(buf.len());
        if !self.pieces.is_empty() {
            n = n.min(self.pieces[self.k % self.pieces.len()].max(1));
            self.k += 1;
        }
        buf[..n].copy_from_slice(&self.data[self.pos..self.pos + n]);
        self.pos += n;
        Ok(n)
    }
}

fn build(spec: &RespSpec) -> tiny_http::ResponseBox {
    let mut r = match spec.ctor {
        Ctor::FromString => Response::from_string(String::from_utf8_lossy(&spec.body.0).into_owned()).with_status_code(StatusCode(spec.status)).boxed(),
        Ctor::FromData => Response::from_data(spec.body.0.clone()).with_status_code(StatusCode(spec.status)).boxed(),
        Ctor::Empty | Ctor::FromFile => Response::empty(StatusCode(spec.status)).boxed(),
        Ctor::New => Response::new(StatusCode(spec.status), vec![], Piece { data: spec.body.0.clone(), pos: 0, pieces: spec.pieces.clone(), k: 0 }, spec.declared, None).boxed(),
    };
    for (n, v, _) in &spec.headers {
        if let Ok(h) = Header::from_bytes(n.as_bytes(), v.as_bytes()) {
            r.add_header(h);
        }
    }
    if let Some(t) = spec.threshold {
        r = r.with_chunked_threshold(t);
    }
    r
}

fn handle(mut rq: Request, programs: &BTreeMap<String, Program>, log: &Mutex<Vec<serde_json::Value>>) {
    let id = rq.headers().iter().find(|h| h.field.equiv("X-Id")).map(|h| h.value.as_str().to_string()).unwrap_or_else(|| "?".into());
    let prog = programs.get(&id).cloned().unwrap_or_else(|| Program::respond(200, b"default".to_vec()));
    let mut body: Option<Vec<u8>> = None;
    match &prog.body {
        BodyPlan::None => {}
        BodyPlan::Touch(n) => {
            for _ in 0..*n {
                let _ = rq.as_reader();
            }
        }
        BodyPlan::Sizes(v) => {
            let rd = rq.as_reader();
            for s in v {
                let mut b = vec![0u8; (*s).max(1)];
                if !matches!(rd.read(&mut b), Ok(n) if n > 0) {
                    break;
                }
            }
        }
        BodyPlan::ToEof { buf } | BodyPlan::Mixed { buf, .. } => {
            let rd = rq.as_reader();
            let mut data = vec![];
            let mut b = vec![0u8; (*buf).max(1)];
            let mut eof = false;
            loop {
                match rd.read(&mut b) {
                    Ok(0) => {
                        eof = true;
                        break;
                    }
                    Ok(n) => data.extend_from_slice(&b[..n]),
                    Err(_) => break,
                }
            }
            if eof {
                body = Some(data);
            }
        }
        BodyPlan::Exactly(k) => {
            let rd = rq.as_reader();
            let mut got = 0;
            while got < *k {
                let mut b = vec![0u8; (*k - got).min(4096)];
                match rd.read(&mut b) {
                    Ok(0) | Err(_) => break,
                    Ok(n) => got += n,
                }
            }
        }
    }
    log.lock().unwrap().push(serde_json::json!({
        "id": id, "method": rq.method().as_str(), "url": rq.url(),
        "version": [rq.http_version().0, rq.http_version().1],
        "headers": rq.headers().iter().map(|h| (h.field.as_str().as_str().to_string(), h.value.as_str().to_string())).collect::<Vec<_>>(),
        "body_length": rq.body_length(), "body": body.map(B),
    }));
    match &prog.finish {
        Finish::Respond(spec) => {
            let _ = rq.respond(build(spec));
        }
        Finish::Writer { parts, flush } => {
            let mut w = rq.into_writer();
            for p in parts {
                let _ = w.write_all(&p.0);
                if *flush {
                    let _ = w.flush();
                }
            }
        }
        Finish::Drop => drop(rq),
        _ => drop(rq),
    }
}

fn mask_dates(b: &[u8]) -> Vec<u8> {
    let mut o = b.to_vec();
    let pat = b"\r\nDate: ";
    let mut i = 0;
    while i + pat.len() < o.len() {
        if &o[i..i + pat.len()] == pat {
            let mut e = i + pat.len();
            while e < o.len() && o[e] != b'\r' {
                o[e] = b'#';
                e += 1;
            }
            i = e;
        } else {
            i += 1;
        }
    }
    o
}

fn run_conv(cv: &Conv) -> Vec<String> {
    let server = Arc::new(Server::http("127.0.0.1:0").unwrap());
    let addr = server.server_addr().to_ip().unwrap();
    let log = Arc::new(Mutex::new(Vec::new()));
    let (s2, l2, progs) = (server.clone(), log.clone(), cv.programs.clone());
    let rx = std::thread::spawn(move || loop {
        match s2.recv() {
            Ok(rq) => handle(rq, &progs, &l2),
            Err(_) => break,
        }
    });
    let mut c = TcpStream::connect(addr).unwrap();
    c.write_all(&cv.bytes.0).unwrap();
    if cv.half_close {
        c.shutdown(Shutdown::Write).unwrap();
    }
    c.set_read_timeout(Some(Duration::from_millis(400))).unwrap();
    let mut wire = Vec::new();
    let mut fin = false;
    let mut reset = false;
    let mut buf = [0u8; 4096];
    loop {
        match c.read(&mut buf) {
            Ok(0) => {
                fin = true;
                break;
            }
            Ok(n) => wire.extend_from_slice(&buf[..n]),
            Err(e) if e.kind() == std::io::ErrorKind::WouldBlock || e.kind() == std::io::ErrorKind::TimedOut => break,
            Err(_) => {
                reset = true;
                fin = true;
                break;
            }
        }
    }
    let mut diffs = vec![];
    let real_deliv = log.lock().unwrap().clone();
    // the simulation masks remote_addr; heads and bodies must agree
    let norm = |v: &serde_json::Value| {
        let mut v = v.clone();
        if let Some(o) = v.as_object_mut() {
            let hs: Vec<(String, String)> = serde_json::from_value(o["headers"].clone()).unwrap_or_default();
            o.insert("headers".into(), serde_json::json!(hs));
        }
        v
    };
    let a: Vec<_> = real_deliv.iter().map(norm).collect();
    let b: Vec<_> = cv.sim.delivered.iter().map(norm).collect();
    if a != b {
        diffs.push(format!("delivered requests differ: kernel {:?} vs simulated {:?}", a.iter().map(|x| x["id"].clone()).collect::<Vec<_>>(), b.iter().map(|x| x["id"].clone()).collect::<Vec<_>>()));
        for (x, y) in a.iter().zip(b.iter()) {
            if x != y {
                diffs.push(format!("  first differing request: kernel {} vs simulated {}", x, y));
                break;
            }
        }
    }
    let w = mask_dates(&wire);
    if reset {
        if !cv.sim.wire.0.starts_with(&w) {
            diffs.push(format!("response stream (cut short by a kernel RST after {} bytes) is not a prefix of the simulated one", w.len()));
        }
    } else {
        if w != cv.sim.wire.0 {
            let k = w.iter().zip(cv.sim.wire.0.iter()).take_while(|(a, b)| a == b).count();
            diffs.push(format!("response stream differs at byte {}: kernel {} bytes, simulated {} bytes", k, w.len(), cv.sim.wire.0.len()));
        }
        if fin != cv.sim.fin {
            diffs.push(format!("end-of-stream differs: kernel {} vs simulated {}", fin, cv.sim.fin));
        }
    }
    drop(c);
    server.unblock();
    let _ = rx.join();
    diffs
}

fn main() {
    let path = std::env::args().nth(1).expect("usage: xcheck <corpus.json>");
    let convs: Vec<Conv> = serde_json::from_str(&std::fs::read_to_string(path).unwrap()).unwrap();
    let mut bad = 0;
    for cv in &convs {
        let d = run_conv(cv);
        if d.is_empty() {
            println!("ok    #{} {}", cv.index, cv.name);
        } else {
            bad += 1;
            println!("DIFF  #{} {}", cv.index, cv.name);
            for l in d {
                println!("      {}", l);
            }
        }
    }
    println!("{} of {} conversations behave identically over kernel TCP (shipped build) and over simrt::net (simulated build)", convs.len() - bad, convs.len());
    std::process::exit(if bad == 0 { 0 } else { 1 });
}
