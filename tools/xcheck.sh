#!/bin/bash
# Cross-check of the simulated transport against the kernel: the corpus conversations of C13/C15
# run over real TCP against the SHIPPED build of tiny-http (no cfg flag) must give the same
# delivered requests, response bytes (Date masked) and end-of-stream as in the simulation.
# Validates the stub; decides no property.  exit 0 = identical.
cd /verif || exit 2
export CARGO_NET_OFFLINE=true
cargo build --release --offline -q -p dst || exit 2
./target/release/dst dump-corpus > target/corpus.json || exit 2
( cd xcheck && RUSTFLAGS= cargo build --release --offline -q ) || exit 2
./xcheck/target/release/xcheck target/corpus.json
