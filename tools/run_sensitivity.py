#!/usr/bin/env python3
"""For each mutant in /verif/sensitivity: does it compile and pass the repository's own tests
(in a scratch worktree, with a time limit: a hanging test counts as failing), and which of the
expected quick checks report a violation?  Writes /verif/sensitivity/results.json.
/repo is restored after every mutant."""
import json, os, signal, subprocess, sys, time

V = '/verif'
WT = '/tmp/own2'


class R:
    pass


def sh(cmd, cwd=None, timeout=3000):
    p = subprocess.Popen(cmd, shell=True, cwd=cwd, stdout=subprocess.PIPE, stderr=subprocess.PIPE,
                         text=True, start_new_session=True)
    try:
        out, err = p.communicate(timeout=timeout)
    except subprocess.TimeoutExpired:
        os.killpg(p.pid, signal.SIGKILL)
        out, err = p.communicate()
        out += "\nerror: TIMEOUT"
    r = R()
    r.stdout, r.stderr, r.returncode = out, err, p.returncode
    return r


def main():
    muts = json.load(open(f'{V}/sensitivity/mutants.json'))
    only = sys.argv[1:]
    res = []
    if os.path.exists(f'{V}/sensitivity/results.json'):
        res = json.load(open(f'{V}/sensitivity/results.json'))
    done = {r['name'] for r in res}
    assert sh('git diff --quiet', cwd='/repo').returncode == 0, "/repo dirty"
    for m in muts:
        name = m['name']
        if only and name not in only:
            continue
        if not only and name in done:
            continue
        patch = f'{V}/sensitivity/{name}.diff'
        r = {'name': name, 'what': m.get('what', name), 'expected_checks': m['expected_checks'], 'must_detect': m.get('must_detect', m['expected_checks']), 'must_stay_silent': m.get('must_stay_silent', [])}
        sh('git checkout -- .', cwd=WT)
        a = sh(f'git apply {patch}', cwd=WT)
        if a.returncode != 0:
            r['error'] = 'patch does not apply'
            res.append(r)
            continue
        t = sh('CARGO_NET_OFFLINE=true cargo test --offline --no-fail-fast 2>&1 | grep -E "^test result|^error"',
               cwd=WT, timeout=240)
        lines = t.stdout.strip().splitlines()
        r['baseline_tests_pass'] = len(lines) >= 9 and all(l.startswith('test result: ok') for l in lines)
        r['baseline_summary'] = [l for l in lines if not l.startswith('test result: ok')][:3]
        sh('git checkout -- .', cwd=WT)
        sh(f'git apply {patch}', cwd='/repo')
        try:
            r['checks'] = {}
            for c in m['expected_checks']:
                t0 = time.time()
                o = sh(f'./check {c} quick', cwd=V)
                viol = [l for l in o.stdout.splitlines() if l.startswith('violation ')]
                r['checks'][c] = {'exit': o.returncode, 'wall_s': round(time.time() - t0, 1),
                                  'violations': [v[:300] for v in viol[:3]]}
        finally:
            sh('git checkout -- .', cwd='/repo')
        res = [x for x in res if x['name'] != name] + [r]
        json.dump(res, open(f'{V}/sensitivity/results.json', 'w'), indent=1)
        print(name, 'tests_pass' if r.get('baseline_tests_pass') else 'TESTS_FAIL',
              {c: v['exit'] for c, v in r.get('checks', {}).items()}, flush=True)


main()
