#!/bin/bash
# tools/try_patch.sh <patch.diff> <Cxx> [Cyy ...]   (env RUNS=N to override the number of runs)
# Applies a seeded change to /repo, runs the given quick checks, and always restores /repo.
patch="$1"; shift
cd /repo || exit 2
if ! git diff --quiet; then echo "/repo has uncommitted changes; refusing"; exit 2; fi
git apply "$patch" || { echo "patch does not apply"; exit 2; }
trap 'git -C /repo checkout -- . ' EXIT
cd /verif
for p in "$@"; do
  if [ -n "$RUNS" ]; then extra="--runs $RUNS"; else extra=""; fi
  out=$(./check "$p" quick $extra 2>&1); code=$?
  echo "== $p exit=$code"
  echo "$out" | grep -E "^violation|^VIOLATION|^KNOWN|^harness|RESULT" | cut -c1-600
done
