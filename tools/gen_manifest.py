#!/usr/bin/env python3
"""Regenerates /verif/MANIFEST.json from the table below (one entry per claimed check)."""
import json, os, subprocess

V = "/verif"
HOOK_COMMITS = ["21f0a99", "f5299b9"]

TECH = "deterministic simulation of the real server on simrt (seeded schedules, virtual time, in-memory transport with fault injection); "
TRUST = ("Trusted base: simrt's models of Mutex/Condvar/mpsc/atomics (sequentially consistent; Arc stays std), of the virtual clock and of the stream transport "
         "(no RST from closing with unread input, no EINTR, accept never fails); the independent request model and response parser in harness/src/httpmodel.rs. "
         "Sampling over schedules and faults, not proof. TLS paths are not built.")

CHECKS = {
 "C02": ("exploration", "grammar-directed request heads (standard and extension methods, visible-ASCII targets to 3000 B, 1.0/1.1, 0..64 headers with duplicates/empty values/colons/OWS, values to 1600 B) under generated segmentations (1/7/1023/1024/1025-byte and random cuts) and schedules, also behind earlier clients that vanished in the middle of a head line on the same pool workers, through the real accept/pool/queue/recv path, TCP-like and UNIX-like listeners, plus long-lived connections with 80..200 requests; method/target/version/header list/peer address handed to the application equal what was sent", "refinement oracle: application-observed head vs the generator's abstract request"),
 "C03": ("exploration", "Content-Length bodies around 1024/2048 and up to 70000 B, chunked bodies with generated chunkings (sizes, hex case, leading zeros, extensions), both headers together, upgrade requests (rest of stream), each followed by a pipelined marker, or a Content-Length body cut short by the client closing its sending side; the application reads with generated buffer-size sequences to the first Ok(0) and once more; bytes, end-of-stream position and body_length equal the reference model's", "refinement oracle: bytes read by the application vs the reference framing model"),
 "C04": ("exploration", "responses over status classes (incl. the neighbours of the body-less codes and uniformly drawn 200..599), bodies 0..70000 B around the 8192 chunk size and 32768 threshold, declared/undeclared length, threshold variants, all constructors, piece-wise body readers, answering HEAD/GET, 1.0/1.1, TE variants, through the simulated transport (short writes, small windows) and through the public raw_print into a writer accepting seeded random prefixes; an independent RFC 7230 client parser must recover status and exactly the body, self-delimited, with no body bytes for HEAD/1xx/204/304", "independent client-side parser over the simulated wire and over a short-writing Write seam"),
 "C09": ("exploration", "a body-bearing request (Content-Length 1..140000, thorough 200000, or chunked with generated chunking; optionally expecting; optionally held back by the client until the server has answered) at position 0..2 of a pipeline whose handler consumes a generated prefix (nothing, an empty read, exactly k, to the end) and finishes by respond/drop/raw writer, followed by 1-3 spiced marker requests under generated segmentation, plus mixed-feature conversations; the markers are delivered with exactly the heads sent and answered, nothing else is delivered", "conversation oracle against the reference request model"),
 "C11": ("exploration", "pipelines of 2..8 requests; (A) all bodies absent or <= 1024 B and the application collects all n before answering any, on one thread calling recv, on one thread polling with try_recv around 0-2 unblock calls, or with one blocked thread per request each holding its request for a virtual second; (B) a streamed body is read to its end (or the request answered/dropped unread, also by a panicking handler) and the request kept for 1 virtual second while the successor must already be obtainable; a collector still blocked at quiescence is the violation", "quiescence (deadlock) detection + virtual-time ordering"),
 "C13": ("fault_enumeration", "fault = segmentation: for each of ~40 corpus conversations every single split point (with and without a virtual pause), one-byte-at-a-time, and random multi-way splits; delivered requests (heads, bodies) and the Date-normalised response stream must equal the unsplit delivery's. The single-cut space of the corpus is enumerated completely; schedules are sampled", "metamorphic comparison with the unsplit run, enumerated cut points"),
 "C14": ("exploration", "hostile heads/bodies (Content-Length 256 MiB..usize::MAX with few bytes sent, chunk sizes to and beyond 16 hex digits, thousands of headers, MiB-long lines, control/non-ASCII bytes, missing/bare-LF line ends, TE lists with NaN/inf/garbage weights, uninterrupted runs of up to 8000 refused-version requests or 2000 ordinary ones on one connection against std-size thread stacks, truncation, connect-and-reset without a byte) delivered whole or byte-wise, crossed with handlers reading none/some/all then respond/drop; no panic outside application code (process-wide hook), no process death (orchestrator), largest single allocation and live-heap growth bounded by the bytes actually sent (counting global allocator that refuses > 1 GiB)", "crash/abort observation + counting allocator seam"),
 "C15": ("fault_enumeration", "fault = the client vanishing: for each corpus conversation every prefix length of the client's byte stream followed by half-close, full close (post-close write budget and error kind seeded) or reset, plus response-side vanishing (client gone before/after m response bytes, or not reading behind a small window); incomplete requests never delivered, complete ones delivered and answered after an orderly close, delivered set a prefix after a reset, respond returns Ok, nobody blocks for ever, no library panic, a fresh connection is served. The (conversation, prefix, kind) space is enumerated completely; schedules are sampled", "crash-point enumeration with the conversation oracle"),
 "C18": ("exploration", "Expect: 100-continue present/absent (any case) x body length {0,5,1024,1025,5000} framed by Content-Length or chunked x programs {answer without reading, as_reader once/three times, partial read, read to EOF; finished by respond, raw writer or drop} x a client that withholds the body until it sees the interim response or not, pipelined before/after ordinary requests or followed by a second expecting request answered on another thread while the first is still busy; exactly one 100 iff the body was asked for, never before it was asked for, before the final response of the same request; a client waiting for 100 while the server waits for the body is a visible two-party deadlock", "wire oracle + write stamps (event sequence) + two-party deadlock detection"),
 "C19": ("exploration", "ONLY the Date clause depends on something the simulator controls (the wall-clock seam: virtual dates 1970..9998, leap days, roll-overs, jumps and sub-second gaps between up to four responses of one thread; Date must be the IMF-fixdate of the virtual instant of the respond call). The remaining clauses (protected names never sent, Content-Length only sets the length, last Content-Type wins, application headers once each in order, one Server/Date unless supplied, constructors from_string/from_data/from_file/empty/new declare the byte length incl. multi-byte UTF-8, with_data at any point of the header sequence; the automatic response for a request dropped unanswered or by a panicking handler carries one Date and one Server too) are evaluated by the same wire oracle on the same runs with seeded header lists; for them the simulation is a vehicle, not the deciding power", "virtual wall-clock seam + wire header oracle"),
 "C01": ("exploration", "pipelines of 2..6 requests answered in every permutation (n<=4 enumerated by run index) by handler threads (answers spread over milliseconds or over seconds of virtual time) under random/PCT/burst schedules with respond/into_writer (also flushed, or written with a zero-length write, before the first bytes)/drop/handler panic, identity and chunked bodies to 40000 B, optionally ended by a malformed request whose 400 the connection thread writes itself, short writes and small send windows; the client's byte stream must be the expected messages in request order with no mixing", "wire order/contiguity oracle over the client byte log"),
 "C06": ("exploration", "1..5 pipelined requests (spiced with expectations, chunked bodies, HTTP/1.0 keep-alive, long headers), each finished by respond / raw writer / upgrade (also an upgrade call that itself panics) / drop / handler panic (also while one thread holds requests of two connections) on any thread in any order, bodies read none/partly/fully, streamed bodies cut short by the client closing its sending side, streamed bodies the client holds back until answered, body sources that fail after their last byte, plus mixed-feature conversations; at quiescence exactly one final response per delivered request with the status and body its action dictates, and no response held up by a dropped predecessor", "per-request response accounting at quiescence"),
 "C07": ("exploration", "1-3 connections x 1-4 receiver threads mixing recv/recv_timeout/try_recv/iterator, request arrival instants and 0-3 unblock calls placed around the receivers' deadlines, applications that only poll with try_recv (and must end up with every request), strict and racy virtual time, spurious wake-ups; exactly-once delivery, per-receiver wire order (no gaps for a single receiver), and at every quiescence no complete request left undelivered while a receiver is blocked", "exactly-once + quiescence (lost wake-up) oracle"),
 "C08": ("exploration", "N keep-alive connections (to 12, thorough 40) arriving as bursts, staggered, or 5 s +- eps after an earlier burst (workers retiring), some stalling mid-request; at quiescence, with every connection still open, each connection that sent a complete request has its response", "starvation-at-quiescence oracle with PCT/burst schedules"),
 "C10": ("exploration", "pipelines of 1..4 (spiced) requests with one mutated into each malformed/unsupported class at each position (refused versions with and without bodies, optionally followed directly by a second rejected request; unsupported Expect (on HTTP/1.1 and 1.0 requests) with an announced body that is withheld; whitespace-only lines; the client's bytes ending 1..4 bytes before the end of the offending head), earlier requests answered after delays (plain responses, expecting requests whose as_reader flushes an interim response, raw writers flushed part-way), plus mixed-feature conversations with one rejected request; outcome (400/417+close, 505+continue, silent close), order, never delivered, and no stall at quiescence", "conversation oracle against the reference request model"),
 "C12": ("exploration", "version x Connection-header variants at every pipeline position, followed by further requests, client half-closing or not, handlers answering late and out of order, a streamed body the handler never reads and the client holds back until the answer (and, for a connection-ending request, until end-of-stream), plus mixed-feature conversations; nothing served after a connection-ending request, EOF right after the last response, the connection never released with bytes of the last request still unread (a kernel turns that close into a reset), persistence otherwise", "conversation oracle against the reference request model"),
 "C16": ("exploration", "smuggling-prone header syntax (whitespace before/inside the name or before the colon, invalid Content-Length classes) at every pipeline position, early or after up to 300 well-formed fields, with a would-be smuggled request as body and further requests behind; 400 + close, neither offending nor smuggled request delivered", "conversation oracle against the reference request model"),
 "C17": ("exploration", "0..4 unblock calls at generated instants against 1-4 receivers mixing the receive calls and 0-2 connections; released calls never exceed unblock calls, no token or request left queued while a receiver blocks, try_recv takes zero virtual time, empty recv_timeout within [T-1ms, 2T] in strict virtual time (with and without spurious wake-ups)", "token accounting + virtual-clock bounds"),
 "C20": ("exploration", "burst histories then (A) server drop at a generated instant with requests pending/queued/handed out, connect attempts afterwards and late answers, or (B) all clients close and live library threads are counted one idle period (measured by a calibration run, not assumed) + 1 ms after the last activity in strict virtual time, or (C) one short connection per fifth of an idle period keeps arriving after a burst of 16..40 and the surplus workers must still be gone 1.3 idle periods after it", "virtual-time shutdown/reclaim oracle"),
}

NA = {
 "C05": "pure function of (version, status, TE header, declared length, threshold): no schedule, clock, fault or shared state for a simulator to control; see DESIGN.md section 5",
}
PENDING = "check under construction in this round (campaign not yet registered); will be claimed when its simulation campaign lands"

def main():
    props = [json.loads(l)["id"] for l in open(f"{V}/properties.jsonl")]
    checks = []
    for pid in props:
        if pid not in CHECKS: continue
        level, text, tech = CHECKS[pid]
        checks.append({
            "property_id": pid,
            "quick_cmd": f"./check {pid} quick",
            "thorough_cmd": f"./check {pid} thorough",
            "evidence_file": f"/verif/evidence/{pid}.json",
            "replay_cmd_template": f"./check {pid} --replay {{path}}",
            "engine": "dst",
            "level_claimed": {"category": level, "text": "Seeded deterministic simulation of the whole server: " + text + ". Evidence, not proof.", "design_ref": f"DESIGN.md section 5, {pid}"},
            "level_note": TRUST,
            "technique": TECH + tech,
        })
    na = []
    for pid in props:
        if pid in CHECKS: continue
        na.append({"property_id": pid, "reason": NA.get(pid, PENDING)})
    m = {
        "version": 1,
        "setup_cmd": "cd /verif && CARGO_NET_OFFLINE=true cargo build --release --offline -p dst",
        "hooks": {
            "guard": "tiny_http_verif",
            "enable": "RUSTFLAGS='--cfg tiny_http_verif' via /verif/.cargo/config.toml; /repo/src is compiled through the shadow manifest /verif/shadow/Cargo.toml (lib path = /repo/src/lib.rs, extra dependency simrt)",
            "baseline_off_cmd": "cd /repo && cargo test --workspace --no-fail-fast --offline",
            "source_commits": HOOK_COMMITS,
            "add_only": True,
        },
        "engines": [{
            "name": "dst", "path": "/verif/harness", "serves_properties": [c["property_id"] for c in checks],
            "kind_free_text": "deterministic simulation: the real tiny-http runs on simrt (/verif/simrt: real OS threads run one at a time under a seeded scheduler, virtual time, in-memory transport with fault injection); seeded search over schedules, segmentations and fault sequences; replay files; minimisation",
        }],
        "checks": checks,
        "not_applicable": na,
        "notes": "See DESIGN.md. Every check rebuilds from /repo's working tree (cargo, incremental) before running. Exit 2 = harness/build error.",
    }
    json.dump(m, open(f"{V}/MANIFEST.json", "w"), indent=1)
    print("checks:", [c["property_id"] for c in checks], "n/a:", [n["property_id"] for n in na])

main()
