#!/usr/bin/env python3
"""Regenerates /verif/MANIFEST.json from the table below (one entry per claimed check)."""
import json, os, subprocess

V = "/verif"
HOOK_COMMITS = ["21f0a99"]

TECH = "deterministic simulation of the real server on simrt (seeded schedules, virtual time, in-memory transport with fault injection); "
TRUST = ("Trusted base: simrt's models of Mutex/Condvar/mpsc/atomics (sequentially consistent; Arc stays std), of the virtual clock and of the stream transport "
         "(no RST from closing with unread input, no EINTR, accept never fails); the independent request model and response parser in harness/src/httpmodel.rs. "
         "Sampling over schedules and faults, not proof. TLS paths are not built.")

CHECKS = {
 "C01": ("exploration", "pipelines of 2..6 requests answered in every permutation (n<=4 enumerated by run index) by handler threads under random/PCT/burst schedules with respond/into_writer/drop, identity and chunked bodies to 40000 B, short writes and small send windows; the client's byte stream must be the expected messages in request order with no mixing", "wire order/contiguity oracle over the client byte log"),
 "C06": ("exploration", "1..5 pipelined requests, each finished by respond / raw writer / upgrade / drop / handler panic on any thread in any order, bodies read none/partly/fully; at quiescence exactly one final response per delivered request with the status and body its action dictates, and no response held up by a dropped predecessor", "per-request response accounting at quiescence"),
 "C07": ("exploration", "1-3 connections x 1-4 receiver threads mixing recv/recv_timeout/try_recv/iterator, request arrival instants placed around the receivers' deadlines, strict and racy virtual time, spurious wake-ups; exactly-once delivery, per-receiver wire order, and at every quiescence no complete request left undelivered while a receiver is blocked", "exactly-once + quiescence (lost wake-up) oracle"),
 "C08": ("exploration", "N keep-alive connections (to 12, thorough 40) arriving as bursts, staggered, or 5 s +- eps after an earlier burst (workers retiring), some stalling mid-request; at quiescence, with every connection still open, each connection that sent a complete request has its response", "starvation-at-quiescence oracle with PCT/burst schedules"),
 "C10": ("exploration", "pipelines of 1..4 with one request mutated into each malformed/unsupported class at each position, earlier requests answered after delays; outcome (400/417+close, 505+continue, silent close), order, never delivered, and no stall at quiescence", "conversation oracle against the reference request model"),
 "C12": ("exploration", "version x Connection-header variants at every pipeline position, followed by further requests, client half-closing or not, handlers answering late and out of order; nothing served after a connection-ending request, EOF right after the last response, persistence otherwise", "conversation oracle against the reference request model"),
 "C16": ("exploration", "smuggling-prone header syntax (whitespace before/inside the name or before the colon, invalid Content-Length classes) at every pipeline position with a would-be smuggled request as body and further requests behind; 400 + close, neither offending nor smuggled request delivered", "conversation oracle against the reference request model"),
 "C17": ("exploration", "0..4 unblock calls at generated instants against 1-4 receivers mixing the receive calls and 0-2 connections; released calls never exceed unblock calls, no token or request left queued while a receiver blocks, try_recv takes zero virtual time, empty recv_timeout within [T-1ms, 2T] in strict virtual time (with and without spurious wake-ups)", "token accounting + virtual-clock bounds"),
 "C20": ("exploration", "burst histories then (A) server drop at a generated instant with requests pending/queued/handed out, connect attempts afterwards and late answers, or (B) all clients close and live library threads are counted 4.9 s / 5.001 s after the last activity in strict virtual time", "virtual-time shutdown/reclaim oracle"),
}

NA = {
 "C05": "pure function of (version, status, TE header, declared length, threshold): no schedule, clock, fault or shared state for a simulator to control; see DESIGN.md section 5",
}
PENDING = "check under construction in this round (campaign not yet registered); will be claimed when its simulation campaign lands"

def main():
    props = [json.loads(l)["id"] for l in open(f"{V}/properties.jsonl")]
    checks = []
    for pid in props:
        if pid not in CHECKS: continue
        level, text, tech = CHECKS[pid]
        checks.append({
            "property_id": pid,
            "quick_cmd": f"./check {pid} quick",
            "thorough_cmd": f"./check {pid} thorough",
            "evidence_file": f"/verif/evidence/{pid}.json",
            "replay_cmd_template": f"./check {pid} --replay {{path}}",
            "engine": "dst",
            "level_claimed": {"category": level, "text": "Seeded deterministic simulation of the whole server: " + text + ". Evidence, not proof.", "design_ref": f"DESIGN.md section 5, {pid}"},
            "level_note": TRUST,
            "technique": TECH + tech,
        })
    na = []
    for pid in props:
        if pid in CHECKS: continue
        na.append({"property_id": pid, "reason": NA.get(pid, PENDING)})
    m = {
        "version": 1,
        "setup_cmd": "cd /verif && CARGO_NET_OFFLINE=true cargo build --release --offline -p dst",
        "hooks": {
            "guard": "tiny_http_verif",
            "enable": "RUSTFLAGS='--cfg tiny_http_verif' via /verif/.cargo/config.toml; /repo/src is compiled through the shadow manifest /verif/shadow/Cargo.toml (lib path = /repo/src/lib.rs, extra dependency simrt)",
            "baseline_off_cmd": "cd /repo && cargo test --workspace --no-fail-fast --offline",
            "source_commits": HOOK_COMMITS,
            "add_only": True,
        },
        "engines": [{
            "name": "dst", "path": "/verif/harness", "serves_properties": [c["property_id"] for c in checks],
            "kind_free_text": "deterministic simulation: the real tiny-http runs on simrt (/verif/simrt: real OS threads run one at a time under a seeded scheduler, virtual time, in-memory transport with fault injection); seeded search over schedules, segmentations and fault sequences; replay files; minimisation",
        }],
        "checks": checks,
        "not_applicable": na,
        "notes": "See DESIGN.md. Every check rebuilds from /repo's working tree (cargo, incremental) before running. Exit 2 = harness/build error.",
    }
    json.dump(m, open(f"{V}/MANIFEST.json", "w"), indent=1)
    print("checks:", [c["property_id"] for c in checks], "n/a:", [n["property_id"] for n in na])

main()
