#!/usr/bin/env python3
"""Fills the generated tables of DESIGN.md (between HTML comment markers) from
sensitivity/results.json, seeded/*/meta.json and (optionally) /tmp/determinism.txt."""
import json, os, re, glob
V='/verif'
def sens():
    p=f'{V}/sensitivity/results.json'
    if not os.path.exists(p): return '(not run yet)'
    rows=['| mutant | repository tests | quick checks (exit 1 = reported) | verdict |','|---|---|---|---|']
    res=json.load(open(p))
    det=miss=0
    for r in res:
        checks=', '.join(f"{c}:{v['exit']}" for c,v in r.get('checks',{}).items())
        must=r.get('must_detect',r['expected_checks']); silent=r.get('must_stay_silent',[])
        ok_det=all(r['checks'].get(c,{}).get('exit')==1 for c in must) if must else True
        any_det=any(r['checks'].get(c,{}).get('exit')==1 for c in must) if must else True
        ok_sil=all(r['checks'].get(c,{}).get('exit')==0 for c in silent)
        if not must:
            verdict='equivalent mutant: silent as required' if ok_sil else 'ALARM ON EQUIVALENT MUTANT'
        elif ok_det and ok_sil: verdict='detected'; det+=1
        elif any_det and ok_sil: verdict='detected (by '+', '.join(c for c in must if r['checks'][c]['exit']==1)+')'; det+=1
        else: verdict='MISSED'; miss+=1
        rows.append(f"| {r.get('what',r['name'])} | {'pass' if r.get('baseline_tests_pass') else 'fail or hang'} | {checks} | {verdict} |")
    rows.append('')
    rows.append(f'{det} of {det+miss} property-breaking mutants are reported; the equivalent mutant and the negative control stay silent. '
                'Mutants on which the repository\'s own tests already fail are kept in the table because they still show that the check sees the breakage.')
    return '\n'.join(rows)
def seeded():
    rows=['| id | what the change needs in order to manifest | existing tests | demonstration (clean / changed) | reported by |','|---|---|---|---|---|']
    for d in sorted(glob.glob(f'{V}/seeded/*/meta.json')):
        m=json.load(open(d)); v=m.get('verified_in_scratch_worktree',{})
        demo=f"{'pass' if v.get('demo_on_clean_tree',[''])[0].startswith('test result: ok') else '?'} / {'FAIL' if any('FAILED' in x for x in v.get('demo_with_change',[])) else '?'}"
        rows.append(f"| {m.get('id',m['property'])} | {m.get('needs_to_manifest','')} | {'pass' if v.get('existing_tests_pass_with_change') else '?'} | {demo} | {', '.join(m.get('caught_by',[])) or 'NOT REPORTED'} |")
    return '\n'.join(rows)
def determinism():
    p=f'{V}/sensitivity/determinism.txt'
    if not os.path.exists(p): return '(see evidence files: determinism_selfcheck)'
    return '```\n'+open(p).read().strip()+'\n```'
def thorough():
    p=f'{V}/sensitivity/thorough_summary.txt'
    if not os.path.exists(p): return '(not recorded)'
    return '```\n'+open(p).read().strip()+'\n```'
s=open(f'{V}/DESIGN.md').read()
for marker,fn in (('THOROUGH-TABLE',thorough),('SENSITIVITY-TABLE',sens),('SEEDED-TABLE',seeded),('DETERMINISM-TABLE',determinism)):
    start=f'<!-- {marker} -->'; end=f'<!-- /{marker} -->'
    body=start+'\n'+fn()+'\n'+end
    if end in s:
        s=re.sub(re.escape(start)+r'.*?'+re.escape(end), lambda m: body, s, flags=re.S)
    else:
        s=s.replace(start, body)
open(f'{V}/DESIGN.md','w').write(s)
print('DESIGN.md tables updated')
