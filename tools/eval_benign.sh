#!/bin/bash
# tools/eval_benign.sh <patch.diff> [Cxx ...]
# Applies a behaviour-preserving change to /repo, runs the baseline tests (guard off) and the
# quick checks (default: all), prints every check that did not exit 0, and always restores /repo.
patch="$1"; shift
checks="$@"; [ -z "$checks" ] && checks="C01 C02 C03 C04 C06 C07 C08 C09 C10 C11 C12 C13 C14 C15 C16 C17 C18 C19 C20"
cd /repo || exit 2
if ! git diff --quiet; then echo "/repo has uncommitted changes; refusing"; exit 2; fi
git apply "$patch" || { echo "patch does not apply"; exit 2; }
trap 'git -C /repo reset -q --hard HEAD' EXIT
if [ -z "$SKIP_TESTS" ]; then
  t=$(CARGO_NET_OFFLINE=true timeout 600 cargo test --workspace --no-fail-fast --offline 2>&1 | grep -E "^test result|FAILED|panicked|^error")
  echo "baseline tests: $(echo "$t" | grep -c '^test result: ok') ok lines, $(echo "$t" | grep -vc '^test result: ok') other"
  echo "$t" | grep -v '^test result: ok' | head -5
fi
cd /verif
bad=0
for p in $checks; do
  out=$(./check "$p" quick 2>&1); code=$?
  if [ $code -ne 0 ]; then
    bad=$((bad+1))
    echo "== $p exit=$code"
    echo "$out" | grep -E "^violation|^VIOLATION|^KNOWN|^harness|RESULT|^error" -A3 | cut -c1-900 | head -40
  fi
done
echo "SUMMARY $(basename $(dirname $patch))/$(basename $patch): $bad check(s) not silent"
