#!/usr/bin/env python3
"""Regenerates /verif/sensitivity/*.diff (my own deliberate breakages) against /repo HEAD,
using the scratch worktree /tmp/own (git -C /repo worktree add --detach /tmp/own HEAD)."""
import subprocess, os, json
WT='/tmp/own'
muts=[
 ("C01-flush-no-wait (equivalent: flushing early only pushes out bytes others already wrote)","src/util/sequential.rs","""    fn flush(&mut self) -> IoResult<()> {
        if let Some(v) = self.trigger.as_mut() {
            v.recv().unwrap()
        }
        self.trigger = None;
""","""    fn flush(&mut self) -> IoResult<()> {
""",[], ["C01"]),
 ("C01-write-no-wait","src/util/sequential.rs","""        if let Some(v) = self.trigger.as_mut() {
            v.recv().unwrap()
        }
        self.trigger = None;

        self.writer.lock().unwrap().write(buf)""","""        self.writer.lock().unwrap().write(buf)""",["C01"],[]),
 ("C01-drop-no-wait (reverts fix c1cbe99)","src/util/sequential.rs","""        if let Some(v) = self.trigger.take() {
            v.recv().ok();
        }
        self.on_finish.send(()).ok();""","""        self.on_finish.send(()).ok();""",["C01"],[]),
 ("C06-drop-no-500","src/request.rs","""            let response = Response::empty(500);
            let _ = self.respond_impl(response); // ignoring any potential error""","""            drop(self.response_writer.take());""",["C06"],[]),
 ("C07-push-no-notify","src/util/messages_queue.rs","""        queue.push_back(Control::Elem(value));
        self.condvar.notify_one();""","""        queue.push_back(Control::Elem(value));""",["C07"],[]),
 ("C07-pop-back","src/util/messages_queue.rs","""        loop {
            match queue.pop_front() {
                Some(Control::Elem(value)) => return Some(value),
                Some(Control::Unblock) => return None,
                None => (),
            }

            queue = self.condvar.wait(queue).unwrap();""","""        loop {
            match queue.pop_back() {
                Some(Control::Elem(value)) => return Some(value),
                Some(Control::Unblock) => return None,
                None => (),
            }

            queue = self.condvar.wait(queue).unwrap();""",["C07"],[]),
 ("C07-pop_timeout-no-final-look (reverts fix 0d1b248)","src/util/messages_queue.rs","""                return match queue.pop_front() {
                    Some(Control::Elem(value)) => Some(value),
                    Some(Control::Unblock) | None => None,
                };""","""                return None;""",["C07","C17"],[]),
 ("C08-never-grow","src/util/task_pool.rs","""        if self.sharing.waiting_tasks.load(Ordering::Acquire) <= queue.len() {""","""        if self.sharing.waiting_tasks.load(Ordering::Acquire) <= queue.len() && false {""",["C08"],[]),
 ("C08-stale-idle-count (reverts fix a34516a)","src/util/task_pool.rs","""        if self.sharing.waiting_tasks.load(Ordering::Acquire) <= queue.len() {""","""        if self.sharing.waiting_tasks.load(Ordering::Acquire) == 0 {""",["C08"],[]),
 ("C09-no-drain","src/util/equal_reader.rs","""        let mut remaining_to_read = self.size;

        // the remaining""","""        let mut remaining_to_read = 0 * self.size;

        // the remaining""",["C09"],[]),
 ("C09-chunked-no-discard (reverts fix 5e4347c)","src/request.rs","""        let mut buf = [0; 1024];
        while !self.finished {""","""        let mut buf = [0; 1024];
        self.finished = true;
        while !self.finished {""",["C09","C11"],[]),
 ("C10-400-keeps-reading","src/client.rs","""                    response.raw_print(writer, ver, &[], false, None).ok();
                    return None; // we don't know where the next request would start,
                                 // se we have to close""","""                    response.raw_print(writer, ver, &[], false, None).ok();
                    continue;""",["C10","C16"],[]),
 ("C11-threshold-512","src/request.rs","""        } else if content_length <= 1024 && !expects_continue {""","""        } else if content_length <= 512 && !expects_continue {""",["C11"],[]),
 ("C12-ignore-close","src/client.rs","""                Some(ref val) if val.contains("close") => self.no_more_requests = true,
""","",["C12"],[]),
 ("C12-http10-default","src/client.rs","""                None if *rq.http_version() == HTTPVersion(1, 0) => self.no_more_requests = true,
""","",["C12"],[]),
 ("C13-single-read-small-body","src/request.rs","""            while offset != content_length {""","""            if offset != content_length {""",["C13","C03"],[]),
 ("C14-unbounded-buffer (reverts fix ea95d65)","src/util/equal_reader.rs","""            let len = remaining_to_read.min(buf.len());

            match self.reader.read(&mut buf[..len]) {""","""            let mut buf = vec![0; remaining_to_read];

            match self.reader.read(&mut buf) {""",["C14"],[]),
 ("C15-reset-not-ignored","src/request.rs","""            ErrorKind::ConnectionReset => Ok(()),
""","",["C15"],[]),
 ("C16-no-whitespace-check","src/common.rs","""        if s.contains(char::is_whitespace) {""","""        if s.is_empty() {""",["C16"],[]),
 ("C16-trim-header-line (reverts fix 77c564d)","src/client.rs","""                    headers.push(match FromStr::from_str(line.as_str()) {""","""                    headers.push(match FromStr::from_str(line.as_str().trim()) {""",["C16"],[]),
 ("C17-double-unblock","src/util/messages_queue.rs","""        queue.push_back(Control::Unblock);
        self.condvar.notify_one();""","""        queue.push_back(Control::Unblock);
        queue.push_back(Control::Unblock);
        self.condvar.notify_all();""",["C17"],[]),
 ("C18-continue-not-reset","src/request.rs","""            self.response_writer.as_mut().unwrap().flush().ok();
            self.must_send_continue = false;""","""            self.response_writer.as_mut().unwrap().flush().ok();""",["C18"],[]),
 ("C18-preread-expecting","src/request.rs","""        } else if content_length <= 1024 && !expects_continue {""","""        } else if content_length <= 1024 {""",["C18"],[]),
 ("C19-upgrade-allowed","src/response.rs","""            || header.field.equiv("Transfer-Encoding")
            || header.field.equiv("Upgrade")
        {""","""            || header.field.equiv("Transfer-Encoding")
        {""",["C19"],[]),
 ("C19-content-type-push","src/response.rs","""                content_type_header.value = header.value;
                return;""","""                content_type_header.value = header.value.clone();""",["C19"],[]),
 ("C20-close-flag-not-set","src/lib.rs","""        self.close.store(true, Relaxed);
        // Connect briefly""","""        // Connect briefly""",["C20"],[]),
 ("C20-untimed-retire","src/util/task_pool.rs","""                                    .wait_timeout(todo, Duration::from_millis(5000))""","""                                    .wait_timeout(todo, Duration::from_millis(5_000_000))""",["C20"],[]),
 ("C20-drop-notify-without-lock (reverts fix 1002671)","src/util/task_pool.rs","""        let _todo = self.sharing.todo.lock();
""","",["C20"],[]),
 ("C04-one-byte-body-lost","src/response.rs","""                    if data_length >= 1 {""","""                    if data_length > 1 {""",["C04"],[]),
 ("C04-head-sends-body","src/request.rs","""        let do_not_send_body = self.method == Method::Head;""","""        let do_not_send_body = self.method == Method::Head && false;""",["C04"],[]),
 ("C02-value-trim-start","src/common.rs","""            .and_then(|v| AsciiString::from_ascii(v.trim()).ok())""","""            .and_then(|v| AsciiString::from_ascii(v.trim_start()).ok())""",["C02"],[]),
 ("C02-splitn3","src/common.rs","""        let mut elems = input.splitn(2, ':');""","""        let mut elems = input.splitn(3, ':');""",["C02"],[]),
 ("C03-fuse-keeps-inner","src/util/fused_reader.rs","""                let l = r.read(buf)?;
                if l == 0 {
                    self.inner = None;
                }
                Ok(l)
            }
            None => Ok(0),
        }
    }

    fn read_vectored""","""                let l = r.read(buf)?;
                Ok(l)
            }
            None => Ok(0),
        }
    }

    fn read_vectored""",["C03","C11"],[]),
 ("C10-505-next-writer (reverts fix 2ccd089)","src/client.rs","""                let mut writer = rq.into_writer();
                let response = Response::from_string(""","""                let mut writer = self.sink.next().unwrap();
                let response = Response::from_string(""",["C10"],[]),
 ("C16-content-length-lenient (reverts fix fae9c74)","src/request.rs","""                if value.is_empty() || !value.bytes().all(|b| b.is_ascii_digit()) {
                    return Err(RequestCreationError::InvalidContentLength);
                }
                match FromStr::from_str(value) {
                    Ok(length) => Some(length),
                    Err(_) => return Err(RequestCreationError::InvalidContentLength),
                }""","""                FromStr::from_str(value).ok()""",["C16"],[]),
 ("C09-into_writer-drops-body-first (reverts fix 952e713)","src/request.rs","""        let body = self.data_reader.take();
        let writer = Box::new(WriterThenBody {""","""        let body: Option<Box<dyn Read + Send + 'static>> = None;
        let writer = Box::new(WriterThenBody {""",["C09"],[]),
 ("C14-te-nan-kept (reverts fix 4061d0a)","src/response.rs","""            parse.retain(|elem| !elem.1.is_nan());
""","",["C14"],[]),
 ("C06-respond-no-flush","src/request.rs","""        Self::ignore_client_closing_errors(writer.flush())
    }""","""        Ok(())
    }""",["C06","C08"],["C01"]),
]
for f in os.listdir('/verif/sensitivity'):
    if f.endswith('.diff'): os.remove('/verif/sensitivity/'+f)
table=[]
for name,f,old,new,exp,silent in muts:
    short=name.split(' ')[0]
    p=os.path.join(WT,f)
    s=open(p).read()
    if s.count(old)!=1:
        print("SKIP",name,"count",s.count(old)); continue
    open(p,'w').write(s.replace(old,new))
    d=subprocess.run(['git','-C',WT,'diff','--','src'],capture_output=True,text=True).stdout
    open(f'/verif/sensitivity/{short}.diff','w').write(d)
    subprocess.run(['git','-C',WT,'checkout','--','.'])
    table.append({"name":short,"what":name,"expected_checks":exp+silent,"must_detect":exp,"must_stay_silent":silent})
json.dump(table,open('/verif/sensitivity/mutants.json','w'),indent=1)
print(len(table),"mutants written")
