#!/usr/bin/env python3
"""Verify a sub-agent's seeded change in a scratch worktree: the demo passes on the clean tree,
fails with the change, and the repository's own tests still pass with the change."""
import subprocess, sys, json, os, shutil
WT='/tmp/own3'
def sh(cmd, cwd=WT, timeout=1800):
    return subprocess.run(cmd, shell=True, cwd=cwd, capture_output=True, text=True, timeout=timeout)
def results(out):
    return [l for l in out.splitlines() if l.startswith('test result') or 'error' in l[:6]]
pid=sys.argv[1]
src=sys.argv[2] if len(sys.argv) > 2 else f'/tmp/mut_{pid}_out'
patch=f'{src}/patch.diff'; demo=f'{src}/seeded_demo.rs'
sh('git checkout -q --detach $(git -C /repo rev-parse HEAD) 2>/dev/null; git checkout -- . && git clean -fdq tests')
shutil.copy(demo, f'{WT}/tests/seeded_demo.rs')
r={'property':pid[:3]}
o=sh('CARGO_NET_OFFLINE=true cargo test --offline --test seeded_demo 2>&1 | tail -5')
r['demo_on_clean_tree']=results(o.stdout)
a=sh(f'git apply {patch}')
r['patch_applies']=a.returncode==0
r['files']=sh('git diff --stat -- src').stdout.strip().splitlines()
o=sh('CARGO_NET_OFFLINE=true cargo test --offline --test seeded_demo 2>&1 | tail -5')
r['demo_with_change']=results(o.stdout)
os.remove(f'{WT}/tests/seeded_demo.rs')
o=sh('CARGO_NET_OFFLINE=true cargo test --offline --no-fail-fast 2>&1 | grep -E "^test result|^error"')
lines=o.stdout.strip().splitlines()
r['existing_tests_pass_with_change']=bool(lines) and all(l.startswith('test result: ok') for l in lines)
sh('git checkout -- . && git clean -fdq tests')
print(json.dumps(r,indent=1))
os.makedirs(f'/verif/seeded/{pid}',exist_ok=True)
json.dump(r,open(f'/verif/seeded/{pid}/verify.json','w'),indent=1)
