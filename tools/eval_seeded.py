#!/usr/bin/env python3
"""Run the checks against each independently seeded change (/verif/seeded/<id>/patch.diff):
first the property's own quick check, and if that stays silent every other quick check.
Writes /verif/seeded/<id>/meta.json.  /repo is restored after every change."""
import json, os, signal, subprocess, sys, time

V = '/verif'
ALL = ['C01', 'C02', 'C03', 'C04', 'C06', 'C07', 'C08', 'C09', 'C10', 'C11', 'C12', 'C13', 'C14', 'C15', 'C16',
       'C17', 'C18', 'C19', 'C20']


class R:
    pass


def sh(cmd, cwd=None, timeout=3000):
    p = subprocess.Popen(cmd, shell=True, cwd=cwd, stdout=subprocess.PIPE, stderr=subprocess.PIPE,
                         text=True, start_new_session=True)
    try:
        out, err = p.communicate(timeout=timeout)
    except subprocess.TimeoutExpired:
        os.killpg(p.pid, signal.SIGKILL)
        out, err = p.communicate()
        out += "\nerror: TIMEOUT"
    r = R()
    r.stdout, r.stderr, r.returncode = out, err, p.returncode
    return r


def run_check(c, tier='quick'):
    t0 = time.time()
    o = sh(f'./check {c} {tier}', cwd=V)
    viol = [l for l in o.stdout.splitlines() if l.startswith('violation ')]
    return {'exit': o.returncode, 'wall_s': round(time.time() - t0, 1), 'violations': [v[:400] for v in viol[:3]],
            'tier': tier}


def main():
    ids = sys.argv[1:] or sorted(d for d in os.listdir(f'{V}/seeded') if os.path.isdir(f'{V}/seeded/{d}') and d != 'rejected')
    assert sh('git diff --quiet', cwd='/repo').returncode == 0, "/repo dirty"
    for pid in ids:
        d = f'{V}/seeded/{pid}'
        patch = f'{d}/patch.diff'
        meta = {'property': pid[:3], 'id': pid}
        if os.path.exists(f'{d}/verify.json'):
            meta['verified_in_scratch_worktree'] = json.load(open(f'{d}/verify.json'))
        if os.path.exists(f'{d}/meta.json'):
            old = json.load(open(f'{d}/meta.json'))
            for k in ('needs_to_manifest', 'origin'):
                if k in old:
                    meta[k] = old[k]
        if 'SUPERSEDED' in meta.get('needs_to_manifest', ''):
            meta['note'] = 'not evaluated against the current tree: superseded by a fix (see needs_to_manifest)'
            json.dump(meta, open(f'{d}/meta.json', 'w'), indent=1)
            print(pid, 'superseded')
            continue
        a = sh(f'git apply {patch}', cwd='/repo')
        if a.returncode != 0:
            a = sh(f'git apply --3way {patch}', cwd='/repo')
        if a.returncode != 0:
            meta['error'] = 'patch does not apply to the current /repo HEAD: ' + a.stderr[:200]
            sh('git reset -q --hard HEAD', cwd='/repo')
            json.dump(meta, open(f'{d}/meta.json', 'w'), indent=1)
            print(pid, 'PATCH DOES NOT APPLY')
            continue
        try:
            own = meta['property']
            meta['checks'] = {own: run_check(own)}
            caught = meta['checks'][own]['exit'] == 1
            if not caught:
                for c in ALL:
                    if c == own:
                        continue
                    meta['checks'][c] = run_check(c)
                    if meta['checks'][c]['exit'] == 1:
                        caught = True
            meta['caught_by'] = sorted(c for c, r in meta['checks'].items() if r['exit'] == 1)
            meta['ran'] = f"git -C /repo apply {patch}; ./check <id> quick; git -C /repo checkout -- ."
        finally:
            sh('git reset -q --hard HEAD', cwd='/repo')
        json.dump(meta, open(f'{d}/meta.json', 'w'), indent=1)
        print(pid, 'caught by', meta.get('caught_by'), flush=True)


main()
